// C33: the compactor does nothing destructive on an incomplete view.
package main

import (
	"bytes"
	"context"
	"encoding/json"
	"fmt"
	"go/ast"
	"io"
	"io/fs"
	"math/rand"
	"os"
	"path"
	"path/filepath"
	"sort"
	"strings"
	"sync"
	"time"

	"github.com/go-kit/log"
	"github.com/oklog/ulid/v2"
	"github.com/prometheus/client_golang/prometheus"
	"github.com/prometheus/client_golang/prometheus/promauto"
	"github.com/prometheus/prometheus/model/labels"
	"github.com/prometheus/prometheus/tsdb"
	"github.com/thanos-io/objstore"

	"github.com/thanos-io/thanos/pkg/block"
	"github.com/thanos-io/thanos/pkg/block/metadata"
	"github.com/thanos-io/thanos/pkg/compact"
	"github.com/thanos-io/thanos/pkg/logutil"
	"github.com/thanos-io/thanos/pkg/testutil/e2eutil"
	"github.com/thanos-io/thanos/zzverif/common"
	cu "github.com/thanos-io/thanos/zzverif/compactutil"
)

type input struct {
	// real blocks [0,1000) [1000,2000) [2000,3000) [3000,4000) of one stream are
	// always present (the first three get compacted on a complete view).
	Lister string `json:"lister"` // recursive | concurrent
	// extra meta-only blocks of other streams
	OldMarked    int  `json:"old_marked"`    // deletion mark older than the delete delay: the cleaner deletes them
	RecentMarked int  `json:"recent_marked"` // deletion mark younger than delay/2: stay in the view
	MidMarked    int  `json:"mid_marked,omitempty"` // mark older than delay/2 but younger than the delete delay: hidden, not deleted
	DupRecentMarked bool `json:"dup_recent_marked,omitempty"` // the first duplicate already carries a recent mark
	BadMarkVersion int `json:"bad_mark_version,omitempty"` // 1: a deletion mark, 2: a no-compact mark with version 9 (the sync fails by itself)
	Duplicates   int  `json:"duplicates"`    // blocks whose sources are covered: garbage collection marks them
	NoCompact    int  `json:"no_compact"`    // carry a no-compact mark
	Partial      int  `json:"partial"`       // directories without meta.json
	CorruptMeta  int  `json:"corrupt_meta"`  // meta.json is not JSON
	CorruptMark  int  `json:"corrupt_mark"`  // deletion-mark.json / no-compact-mark.json not JSON
	BadVersion   bool `json:"bad_version"`   // one meta.json with version 9: the sync fails by itself
	Cleaner      bool `json:"cleaner"`       // BucketCompactor built with a BlocksCleaner
	Old          bool `json:"old,omitempty"` // every object was last modified 72 h ago: partial uploads are cleaned up
	// StressBlocks > 0: additionally fetch a bucket of that many meta-only blocks through the
	// ConcurrentLister with one Exists probe failing, 30 times (a failed listing must come back
	// as an error of Fetch, not as a crash of the process).
	StressBlocks int `json:"stress_blocks,omitempty"`
	MaxFaults    int  `json:"max_faults"`    // at most this many fault positions are tried (0 = all)
	FaultSeed    int64 `json:"fault_seed"`
}

// ---- tie T ---------------------------------------------------------------------

func facts(repo string, w io.Writer) error {
	s, err := common.ParseSrc(repo, "pkg/compact/compact.go")
	if err != nil {
		return err
	}
	evs, err := s.CallOrder("BucketCompactor.Compact")
	if err != nil {
		return err
	}
	fmt.Fprintln(w, "(* pkg/compact/compact.go: source-order events of BucketCompactor.Compact *)")
	fmt.Fprint(w, common.EventsCoq("Compact_events", evs))
	evs, err = s.CallOrder("Syncer.SyncMetas")
	if err != nil {
		return err
	}
	fmt.Fprintln(w, "(* compact.go: Syncer.SyncMetas *)")
	fmt.Fprint(w, common.EventsCoq("SyncMetas_events", evs))

	// the group workers only take work from groupChan, and groupChan is fed only
	// after the SyncMetas error check of the same loop iteration
	fd, err := s.FindFunc("BucketCompactor.Compact")
	if err != nil {
		return err
	}
	var syncIfPos, firstSendPos = -1, -1
	sends, compactCalls, compactInRange := 0, 0, 0
	ast.Inspect(fd.Body, func(n ast.Node) bool {
		switch x := n.(type) {
		case *ast.IfStmt:
			if x.Init != nil && strings.Contains(s.ExprString(x.Init.(*ast.AssignStmt).Rhs[0]), "c.sy.SyncMetas(") &&
				s.ExprString(x.Cond) == "err != nil" && strings.HasSuffix(cu.BodyKinds(x.Body), "return") && syncIfPos < 0 {
				syncIfPos = int(x.Pos())
			}
		case *ast.SendStmt:
			if s.ExprString(x.Chan) == "groupChan" {
				sends++
				if firstSendPos < 0 {
					firstSendPos = int(x.Pos())
				}
			}
		case *ast.RangeStmt:
			if s.ExprString(x.X) == "groupChan" {
				ast.Inspect(x.Body, func(m ast.Node) bool {
					if ce, ok := m.(*ast.CallExpr); ok && s.ExprString(ce.Fun) == "g.Compact" {
						compactInRange++
					}
					return true
				})
			}
		case *ast.CallExpr:
			if s.ExprString(x.Fun) == "g.Compact" {
				compactCalls++
			}
		}
		return true
	})
	fmt.Fprintln(w, "(* compact.go: every g.Compact call sits inside `for g := range groupChan` *)")
	fmt.Fprintf(w, "Definition Compact_workers_fed_by_groupChan : bool := %v.\n", compactCalls > 0 && compactCalls == compactInRange)
	fmt.Fprintln(w, "(* compact.go: groups are sent to groupChan only after `if err := c.sy.SyncMetas(ctx); err != nil { return ... }` *)")
	fmt.Fprintf(w, "Definition Compact_groupChan_fed_after_sync : bool := %v.\n", sends > 0 && syncIfPos >= 0 && firstSendPos > syncIfPos)

	// the error-return lines between a failing read and SyncMetas
	fs, err := common.ParseSrc(repo, "pkg/block/fetcher.go")
	if err != nil {
		return err
	}
	for _, f := range []struct{ fn, name string }{
		{"BaseFetcher.fetch", "fetch_events"},
		{"BaseFetcher.fetchMetadata", "fetchMetadata_events"},
		{"BaseFetcher.loadMeta", "loadMeta_events"},
		{"IgnoreDeletionMarkFilter.Filter", "delmark_filter_events"},
	} {
		evs, err := fs.CallOrder(f.fn)
		if err != nil {
			return err
		}
		fmt.Fprintf(w, "(* pkg/block/fetcher.go: %s *)\n", f.fn)
		fmt.Fprint(w, common.EventsCoq(f.name, evs))
	}
	evs, err = s.CallOrder("GatherNoCompactionMarkFilter.Filter")
	if err != nil {
		return err
	}
	fmt.Fprintln(w, "(* pkg/compact/compact.go: GatherNoCompactionMarkFilter.Filter *)")
	fmt.Fprint(w, common.EventsCoq("nocompact_filter_events", evs))
	ms, err := common.ParseSrc(repo, "pkg/block/metadata/markers.go")
	if err != nil {
		return err
	}
	evs, err = ms.CallOrder("ReadMarker")
	if err != nil {
		return err
	}
	fmt.Fprintln(w, "(* pkg/block/metadata/markers.go: ReadMarker *)")
	fmt.Fprint(w, common.EventsCoq("ReadMarker_events", evs))
	// a marker read error other than not-found / unmarshal is remembered (lastErr = err) and returned
	remembers := func(sf *common.SrcFile, fn string) (bool, error) {
		fd, err := sf.FindFunc(fn)
		if err != nil {
			return false, err
		}
		ok := false
		ast.Inspect(fd.Body, func(n ast.Node) bool {
			is, isIf := n.(*ast.IfStmt)
			if !isIf || is.Init == nil || !strings.Contains(sf.ExprString(is.Init.(*ast.AssignStmt).Rhs[0]), "metadata.ReadMarker(") || sf.ExprString(is.Cond) != "err != nil" {
				return true
			}
			// body: if cause == NotFound {continue}; if cause == Unmarshal {...; continue}; lastErr = err; continue
			var assigns, conts int
			notFound, unmarshal := false, false
			for _, st := range is.Body.List {
				switch x := st.(type) {
				case *ast.IfStmt:
					c := sf.ExprString(x.Cond)
					if strings.HasSuffix(cu.BodyKinds(x.Body), "continue") {
						if strings.Contains(c, "ErrorMarkerNotFound") {
							notFound = true
						}
						if strings.Contains(c, "ErrorUnmarshalMarker") {
							unmarshal = true
						}
					}
				case *ast.AssignStmt:
					if len(x.Lhs) == 1 && sf.ExprString(x.Lhs[0]) == "lastErr" && sf.ExprString(x.Rhs[0]) == "err" {
						assigns++
					}
				case *ast.BranchStmt:
					conts++
				}
			}
			nIfs := 0
			for _, st := range is.Body.List {
				if _, isIf := st.(*ast.IfStmt); isIf {
					nIfs++
				}
			}
			ok = notFound && unmarshal && nIfs == 2 && assigns == 1
			return false
		})
		return ok, nil
	}
	r1, err := remembers(fs, "IgnoreDeletionMarkFilter.Filter")
	if err != nil {
		return err
	}
	r2, err := remembers(s, "GatherNoCompactionMarkFilter.Filter")
	if err != nil {
		return err
	}
	fmt.Fprintln(w, "(* both marker filters: only not-found and unmarshal errors of ReadMarker are skipped; any other error is kept in lastErr *)")
	fmt.Fprintf(w, "Definition delmark_filter_remembers_error : bool := %v.\nDefinition nocompact_filter_remembers_error : bool := %v.\n", r1, r2)
	// fetchMetadata: the `default:` arm of `switch errors.Cause(err)` adds to resp.metaErrs
	fm, err := fs.FindFunc("BaseFetcher.fetchMetadata")
	if err != nil {
		return err
	}
	defaultAdds, namedCases := false, 0
	ast.Inspect(fm.Body, func(n ast.Node) bool {
		sw, isSw := n.(*ast.SwitchStmt)
		if !isSw || !strings.Contains(fs.ExprString(sw.Tag), "errors.Cause(err)") {
			return true
		}
		for _, cc := range sw.Body.List {
			cl := cc.(*ast.CaseClause)
			if cl.List == nil {
				for _, st := range cl.Body {
					if strings.Contains(nodeText(fs, st), "resp.metaErrs.Add(err)") {
						defaultAdds = true
					}
				}
			} else {
				for _, e := range cl.List {
					t := fs.ExprString(e)
					if t == "ErrorSyncMetaNotFound" || t == "ErrorSyncMetaCorrupted" {
						namedCases++
					} else {
						namedCases = -100
					}
				}
			}
		}
		return false
	})
	fmt.Fprintln(w, "(* fetchMetadata: only ErrorSyncMetaNotFound / ErrorSyncMetaCorrupted make a block partial; every other loadMeta error goes to resp.metaErrs *)")
	fmt.Fprintf(w, "Definition fetchMetadata_other_errors_incomplete : bool := %v.\n", defaultAdds && namedCases == 2)

	// cmd/thanos/compact.go is package main: source facts only
	m, err := common.ParseSrc(repo, "cmd/thanos/compact.go")
	if err != nil {
		return err
	}
	rc, err := m.FindFunc("runCompact")
	if err != nil {
		return err
	}
	var lit *ast.FuncLit
	ast.Inspect(rc.Body, func(n ast.Node) bool {
		as, ok := n.(*ast.AssignStmt)
		if !ok || len(as.Lhs) != 1 || len(as.Rhs) != 1 {
			return true
		}
		if id, ok := as.Lhs[0].(*ast.Ident); ok && id.Name == "compactMainFn" {
			if fl, ok := as.Rhs[0].(*ast.FuncLit); ok {
				lit = fl
			}
		}
		return true
	})
	if lit == nil {
		return fmt.Errorf("srcfacts: cmd/thanos/compact.go: closure compactMainFn not found in runCompact")
	}
	synth := &common.SrcFile{Fset: m.Fset, Path: m.Path, File: &ast.File{Name: ast.NewIdent("main"),
		Decls: []ast.Decl{&ast.FuncDecl{Name: ast.NewIdent("compactMainFn"), Type: lit.Type, Body: lit.Body}}}}
	evs, err = synth.CallOrder("compactMainFn")
	if err != nil {
		return err
	}
	fmt.Fprintln(w, "(* cmd/thanos/compact.go: the closure compactMainFn of runCompact (one compactor iteration) *)")
	fmt.Fprint(w, common.EventsCoq("compactMainFn_events", evs))
	return nil
}

func nodeText(s *common.SrcFile, n ast.Node) string {
	var sb strings.Builder
	ast.Inspect(n, func(m ast.Node) bool {
		if e, ok := m.(ast.Expr); ok {
			sb.WriteString(s.ExprString(e))
			sb.WriteString(" ")
			return false
		}
		return true
	})
	return sb.String()
}

// ---- scenario construction --------------------------------------------------------

var (
	tmplOnce sync.Once
	tmplErr  error
	tmpl     map[string][]byte // object name -> content of the four real blocks
)

func buildTemplate() {
	dir, err := os.MkdirTemp("", "verif-c33-")
	if err != nil {
		tmplErr = err
		return
	}
	defer os.RemoveAll(dir)
	tmpl = map[string][]byte{}
	ext := labels.FromStrings("stream", "real")
	series := []labels.Labels{labels.FromStrings("a", "1"), labels.FromStrings("a", "2")}
	for i := int64(0); i < 4; i++ {
		id, err := e2eutil.CreateBlock(context.Background(), dir, series, 20, i*1000, (i+1)*1000, ext, 0, metadata.NoneFunc, nil)
		if err != nil {
			tmplErr = err
			return
		}
		bdir := filepath.Join(dir, id.String())
		err = filepath.WalkDir(bdir, func(p string, d fs.DirEntry, err error) error {
			if err != nil || d.IsDir() {
				return err
			}
			b, err := os.ReadFile(p)
			if err != nil {
				return err
			}
			rel, _ := filepath.Rel(dir, p)
			tmpl[filepath.ToSlash(rel)] = b
			return nil
		})
		if err != nil {
			tmplErr = err
			return
		}
	}
}

func mkULID(ms uint64, n int) ulid.ULID {
	var u ulid.ULID
	_ = u.SetTime(ms)
	u[15], u[14] = byte(n), byte(n>>8)
	return u
}

const deleteDelay = 48 * time.Hour

// one block directory of a scenario, as the model sees it
type bdesc struct {
	id      ulid.ULID
	stream  string
	sources []ulid.ULID
	meta    string // MOk | MMissing | MCorrupt | MBadVersion
	del     string // DNone | (DOk hide clean) | DCorrupt | DBadVersion
	noc     string // NNone | NOk | NCorrupt | NBadVersion
	real    bool
}

type scenario struct {
	objects map[string][]byte
	corrupt map[string]bool // object names holding garbage
	badver  map[string]bool
	blocks  []*bdesc
	num     map[ulid.ULID]int64 // rank of the ULID (ULID.Compare order), used as the model's block id
}

func metaOnly(id ulid.ULID, stream string, mint, maxt int64, sources []ulid.ULID, version int) []byte {
	m := metadata.Meta{}
	m.Version = version
	m.ULID = id
	m.MinTime, m.MaxTime = mint, maxt
	m.Compaction.Level = 1
	m.Compaction.Sources = sources
	if sources == nil {
		m.Compaction.Sources = []ulid.ULID{id}
	}
	m.Stats = tsdb.BlockStats{NumSamples: 1, NumSeries: 1, NumChunks: 1}
	m.Thanos.Labels = map[string]string{"stream": stream}
	m.Thanos.Version = 1
	b, _ := json.Marshal(m)
	return b
}

func build(in input) (*scenario, error) {
	sc := &scenario{objects: map[string][]byte{}, corrupt: map[string]bool{}, badver: map[string]bool{}, num: map[ulid.ULID]int64{}}
	for k, v := range tmpl {
		sc.objects[k] = v
		if strings.HasSuffix(k, "/meta.json") {
			var m metadata.Meta
			if err := json.Unmarshal(v, &m); err != nil {
				return nil, err
			}
			sc.blocks = append(sc.blocks, &bdesc{id: m.ULID, stream: "real", sources: m.Compaction.Sources, meta: "MOk", del: "DNone", noc: "NNone", real: true})
		}
	}
	n := 0
	next := func() ulid.ULID { n++; return mkULID(uint64(5000+n), n) }
	put := func(name string, b []byte) { sc.objects[name] = b }
	add := func(d *bdesc) *bdesc {
		if d.del == "" {
			d.del = "DNone"
		}
		if d.noc == "" {
			d.noc = "NNone"
		}
		if d.sources == nil {
			d.sources = []ulid.ULID{d.id}
		}
		sc.blocks = append(sc.blocks, d)
		return d
	}
	now := time.Now().Unix()
	delMark := func(id ulid.ULID, age int64, version int) {
		dm, _ := json.Marshal(metadata.DeletionMark{ID: id, Version: version, DeletionTime: now - age})
		put(path.Join(id.String(), metadata.DeletionMarkFilename), dm)
	}
	for i := 0; i < in.OldMarked; i++ {
		id := next()
		st := fmt.Sprintf("old%d", i)
		put(path.Join(id.String(), "meta.json"), metaOnly(id, st, 0, 1000, nil, 1))
		delMark(id, int64(deleteDelay/time.Second)+1000, 1)
		add(&bdesc{id: id, stream: st, meta: "MOk", del: "(DOk true true)"})
	}
	for i := 0; i < in.MidMarked; i++ { // hidden from the compactor's view (older than delay/2), not yet deletable
		id := next()
		st := fmt.Sprintf("mid%d", i)
		put(path.Join(id.String(), "meta.json"), metaOnly(id, st, 0, 1000, nil, 1))
		delMark(id, int64(deleteDelay/time.Second)*3/4, 1)
		add(&bdesc{id: id, stream: st, meta: "MOk", del: "(DOk true false)"})
	}
	for i := 0; i < in.RecentMarked; i++ {
		id := next()
		st := fmt.Sprintf("recent%d", i)
		put(path.Join(id.String(), "meta.json"), metaOnly(id, st, 0, 1000, nil, 1))
		delMark(id, 60, 1)
		add(&bdesc{id: id, stream: st, meta: "MOk", del: "(DOk false false)"})
	}
	if in.Duplicates > 0 {
		// one compacted block and the blocks it was built from (same stream): the sources are garbage
		parent := next()
		var srcs []ulid.ULID
		for i := 0; i < in.Duplicates; i++ {
			srcs = append(srcs, next())
		}
		put(path.Join(parent.String(), "meta.json"), metaOnly(parent, "dup", 0, int64(1000*len(srcs)), srcs, 1))
		add(&bdesc{id: parent, stream: "dup", sources: srcs, meta: "MOk"})
		for i, s := range srcs {
			put(path.Join(s.String(), "meta.json"), metaOnly(s, "dup", int64(1000*i), int64(1000*(i+1)), nil, 1))
			d := add(&bdesc{id: s, stream: "dup", meta: "MOk"})
			if in.DupRecentMarked && i == 0 { // a duplicate that is already marked: not marked again
				delMark(s, 60, 1)
				d.del = "(DOk false false)"
			}
		}
	}
	for i := 0; i < in.NoCompact; i++ {
		id := next()
		st := fmt.Sprintf("nc%d", i)
		put(path.Join(id.String(), "meta.json"), metaOnly(id, st, 0, 1000, nil, 1))
		nm, _ := json.Marshal(metadata.NoCompactMark{ID: id, Version: 1, Reason: metadata.ManualNoCompactReason})
		put(path.Join(id.String(), metadata.NoCompactMarkFilename), nm)
		add(&bdesc{id: id, stream: st, meta: "MOk", noc: "NOk"})
	}
	for i := 0; i < in.Partial; i++ {
		id := next()
		put(path.Join(id.String(), "chunks", "000001"), []byte("x"))
		add(&bdesc{id: id, stream: "partial", meta: "MMissing"})
	}
	for i := 0; i < in.CorruptMeta; i++ {
		id := next()
		name := path.Join(id.String(), "meta.json")
		put(name, []byte("{not json"))
		sc.corrupt[name] = true
		add(&bdesc{id: id, stream: "corrupt", meta: "MCorrupt"})
	}
	for i := 0; i < in.CorruptMark; i++ {
		id := next()
		st := fmt.Sprintf("cm%d", i)
		put(path.Join(id.String(), "meta.json"), metaOnly(id, st, 0, 1000, nil, 1))
		d := add(&bdesc{id: id, stream: st, meta: "MOk"})
		name := path.Join(id.String(), metadata.DeletionMarkFilename)
		if i%2 == 1 {
			name = path.Join(id.String(), metadata.NoCompactMarkFilename)
			d.noc = "NCorrupt"
		} else {
			d.del = "DCorrupt"
		}
		put(name, []byte("{not json"))
		sc.corrupt[name] = true
	}
	if in.BadVersion {
		id := next()
		name := path.Join(id.String(), "meta.json")
		put(name, metaOnly(id, "badver", 0, 1000, nil, 9))
		sc.badver[name] = true
		add(&bdesc{id: id, stream: "badver", meta: "MBadVersion"})
	}
	if in.BadMarkVersion > 0 {
		id := next()
		put(path.Join(id.String(), "meta.json"), metaOnly(id, "badmark", 0, 1000, nil, 1))
		d := add(&bdesc{id: id, stream: "badmark", meta: "MOk"})
		if in.BadMarkVersion == 1 {
			delMark(id, 60, 9)
			d.del = "DBadVersion"
			sc.badver[path.Join(id.String(), metadata.DeletionMarkFilename)] = true
		} else {
			nm, _ := json.Marshal(metadata.NoCompactMark{ID: id, Version: 9, Reason: metadata.ManualNoCompactReason})
			put(path.Join(id.String(), metadata.NoCompactMarkFilename), nm)
			d.noc = "NBadVersion"
			sc.badver[path.Join(id.String(), metadata.NoCompactMarkFilename)] = true
		}
	}
	// model ids: rank of the ULID among all ULIDs of the scenario
	var all []ulid.ULID
	seen := map[ulid.ULID]bool{}
	for _, d := range sc.blocks {
		for _, u := range append([]ulid.ULID{d.id}, d.sources...) {
			if !seen[u] {
				seen[u] = true
				all = append(all, u)
			}
		}
	}
	sort.Slice(all, func(i, j int) bool { return all[i].Compare(all[j]) < 0 })
	for i, u := range all {
		sc.num[u] = int64(i + 1)
	}
	sort.Slice(sc.blocks, func(i, j int) bool { return sc.blocks[i].id.Compare(sc.blocks[j].id) < 0 })
	return sc, nil
}

func (sc *scenario) coq() string {
	streams := map[string]int64{}
	var xs []string
	for _, d := range sc.blocks {
		if _, ok := streams[d.stream]; !ok {
			streams[d.stream] = int64(len(streams))
		}
		var ss []int64
		for _, u := range d.sources {
			ss = append(ss, sc.num[u])
		}
		xs = append(xs, common.App("mk_bs", common.Z(sc.num[d.id]), common.Z(streams[d.stream]), common.ZList(ss), d.meta, d.del, d.noc))
	}
	return common.List(xs)
}

type pipeline struct {
	bkt   *cu.RecBucket
	inmem *objstore.InMemBucket
	sy    *compact.Syncer
	comp  *compact.BucketCompactor
	idm   *block.IgnoreDeletionMarkFilter
	dir   string
}

// iteration mirrors compactMainFn of cmd/thanos/compact.go with downsampling disabled:
// Compact; sync; retention (none configured); removal of aborted partial uploads.
func (p *pipeline) iteration(ctx context.Context) error {
	if err := p.comp.Compact(ctx); err != nil {
		return err
	}
	if err := p.sy.SyncMetas(ctx); err != nil {
		return err
	}
	c := func() prometheus.Counter { return promauto.With(nil).NewCounter(prometheus.CounterOpts{}) }
	if err := compact.ApplyRetentionPolicyByResolution(ctx, log.NewNopLogger(), p.bkt, p.sy.Metas(), map[compact.ResolutionLevel]time.Duration{}, c()); err != nil {
		return err
	}
	compact.BestEffortCleanAbortedPartialUploads(ctx, log.NewNopLogger(), p.sy.Partial(), p.bkt, c(), c(), c(), p.idm.DeletionMarkBlocks())
	return nil
}

func newPipeline(in input, sc *scenario) (*pipeline, error) {
	ctx := context.Background()
	inmem := objstore.NewInMemBucket()
	for k, v := range sc.objects {
		if err := inmem.Upload(ctx, k, bytes.NewReader(v)); err != nil {
			return nil, err
		}
	}
	bkt := cu.NewRecBucket(inmem)
	if in.Old {
		old := time.Now().Add(-72 * time.Hour)
		bkt.ModTime = func(string) (time.Time, bool) { return old, true }
	}
	logger := log.NewNopLogger()
	ins := objstore.WithNoopInstr(bkt)
	ignoreDeletionMarkFilter := block.NewIgnoreDeletionMarkFilter(logger, ins, deleteDelay/2, 4)
	duplicateBlocksFilter := block.NewDeduplicateFilter(4)
	noCompactMarkerFilter := compact.NewGatherNoCompactionMarkFilter(logger, ins, 4)
	var lister block.Lister = block.NewRecursiveLister(logger, ins)
	if in.Lister == "concurrent" {
		lister = block.NewConcurrentLister(logger, ins)
	}
	fetcher, err := block.NewMetaFetcher(logger, 4, ins, lister, "", nil, []block.MetadataFilter{
		ignoreDeletionMarkFilter, duplicateBlocksFilter, noCompactMarkerFilter,
	})
	if err != nil {
		return nil, err
	}
	c := func() prometheus.Counter { return promauto.With(nil).NewCounter(prometheus.CounterOpts{}) }
	sy, err := compact.NewMetaSyncer(logger, nil, bkt, fetcher, duplicateBlocksFilter, ignoreDeletionMarkFilter, c(), c(), 0)
	if err != nil {
		return nil, err
	}
	tc, err := tsdb.NewLeveledCompactor(ctx, nil, logutil.GoKitLogToSlog(logger), []int64{1000, 3000}, nil, nil)
	if err != nil {
		return nil, err
	}
	planner := compact.NewPlanner(logger, []int64{1000, 3000}, noCompactMarkerFilter)
	grouper := compact.NewDefaultGrouper(logger, bkt, false, false, nil, c(), c(), c(), metadata.NoneFunc, 4, 4)
	dir, err := os.MkdirTemp("", "verif-c33-run-")
	if err != nil {
		return nil, err
	}
	var cleaner *compact.BlocksCleaner
	if in.Cleaner {
		cleaner = compact.NewBlocksCleaner(logger, bkt, ignoreDeletionMarkFilter, deleteDelay, c(), c())
	}
	bc, err := compact.NewBucketCompactor(logger, sy, grouper, planner, tc, filepath.Join(dir, "compact"), bkt, 2, false, cleaner)
	if err != nil {
		return nil, err
	}
	return &pipeline{bkt: bkt, inmem: inmem, sy: sy, comp: bc, idm: ignoreDeletionMarkFilter, dir: dir}, nil
}

func (p *pipeline) close() { os.RemoveAll(p.dir) }

// read classification for the model
func kindOf(op cu.Op) string {
	switch {
	case op.Kind == "iter":
		return "KList"
	case op.Kind == "exists" && strings.HasSuffix(op.Name, "/meta.json"):
		return "KList" // ConcurrentLister probes meta.json while listing
	case (op.Kind == "get" || op.Kind == "getbody") && strings.HasSuffix(op.Name, "/meta.json"):
		return "KMeta"
	case (op.Kind == "get" || op.Kind == "getbody") && strings.HasSuffix(op.Name, "/"+metadata.DeletionMarkFilename):
		return "KDelMark"
	case (op.Kind == "get" || op.Kind == "getbody") && strings.HasSuffix(op.Name, "/"+metadata.NoCompactMarkFilename):
		return "KNoCompact"
	}
	return "KOther"
}

func outcomeOf(op cu.Op, sc *scenario) string {
	switch {
	case op.Failed:
		return "Transient"
	case op.NotFound:
		return "NotFound"
	case op.Kind == "get" && sc.corrupt[op.Name]:
		return "Corrupt"
	case op.Kind == "get" && sc.badver[op.Name]:
		return "BadVersion"
	}
	return "Found"
}

// the model's identifier of a read (rid), "" if the read is none of the sync's
func (sc *scenario) ridOf(op cu.Op) string {
	if op.Kind == "iter" && op.Name == "" {
		return "RList"
	}
	parts := strings.Split(op.Name, "/")
	u, err := ulid.Parse(parts[0])
	if err != nil || len(parts) != 2 {
		return ""
	}
	n, ok := sc.num[u]
	if !ok {
		return ""
	}
	switch {
	case op.Kind == "exists" && parts[1] == "meta.json":
		return common.App("RExists", common.Z(n))
	case op.Kind == "get" && parts[1] == "meta.json":
		return common.App("RMeta", common.Z(n))
	case op.Kind == "get" && parts[1] == metadata.DeletionMarkFilename:
		return common.App("RDel", common.Z(n))
	case op.Kind == "get" && parts[1] == metadata.NoCompactMarkFilename:
		return common.App("RNoc", common.Z(n))
	}
	return ""
}

func traceOf(ops []cu.Op, sc *scenario) (string, int) {
	var xs []string
	mut := 0
	for _, op := range ops {
		if op.Mutating() {
			mut++
			continue
		}
		xs = append(xs, common.Pair(kindOf(op), outcomeOf(op, sc)))
	}
	return common.List(xs), mut
}

func mutAfterFault(ops []cu.Op) (n int, names []string) {
	seen := false
	for _, op := range ops {
		if op.Failed {
			seen = true
		}
		if seen && op.Mutating() {
			n++
			names = append(names, op.Kind+" "+op.Name)
		}
	}
	return
}

func (sc *scenario) idList(m map[ulid.ULID]bool) string {
	var xs []int64
	for u := range m {
		if n, ok := sc.num[u]; ok {
			xs = append(xs, n)
		}
	}
	sort.Slice(xs, func(i, j int) bool { return xs[i] < xs[j] })
	return common.ZList(xs)
}

func listerStress(n int) error {
	ctx := context.Background()
	inmem := objstore.NewInMemBucket()
	var ids []ulid.ULID
	for i := 0; i < n; i++ {
		id := mkULID(uint64(9000+i), i)
		ids = append(ids, id)
		if err := inmem.Upload(ctx, path.Join(id.String(), "meta.json"), bytes.NewReader(metaOnly(id, "s", 0, 1000, nil, 1))); err != nil {
			return err
		}
	}
	for rep := 0; rep < 30; rep++ {
		bkt := cu.NewRecBucket(inmem)
		victim := path.Join(ids[(rep*7)%n].String(), "meta.json")
		bkt.FailName = func(kind, name string) bool { return kind == "exists" && name == victim }
		ins := objstore.WithNoopInstr(bkt)
		f, err := block.NewMetaFetcher(log.NewNopLogger(), 8, ins, block.NewConcurrentLister(log.NewNopLogger(), ins), "", nil, nil)
		if err != nil {
			return err
		}
		if _, _, err := f.Fetch(ctx); err == nil {
			return fmt.Errorf("lister stress: Fetch succeeded although an Exists probe failed")
		}
	}
	return nil
}

func run(raw json.RawMessage) (common.Case, error) {
	var in input
	if err := json.Unmarshal(raw, &in); err != nil {
		return common.Case{}, err
	}
	tmplOnce.Do(buildTemplate)
	if tmplErr != nil {
		return common.Case{}, tmplErr
	}
	var c common.Case
	ctx := context.Background()
	sc, err := build(in)
	if err != nil {
		return c, err
	}
	if in.StressBlocks > 0 {
		if err := listerStress(in.StressBlocks); err != nil {
			return c, err
		}
	}

	// 1. a stand-alone sync on the intact bucket: its reads, the view, whether it fails by itself
	p, err := newPipeline(in, sc)
	if err != nil {
		return c, err
	}
	syncErr := p.sy.SyncMetas(ctx)
	baseOps := p.bkt.Ops()
	metas, partial := map[ulid.ULID]bool{}, map[ulid.ULID]bool{}
	for u := range p.sy.Metas() {
		metas[u] = true
	}
	for u := range p.sy.Partial() {
		partial[u] = true
	}
	p.close()
	baseTrace, baseMut := traceOf(baseOps, sc)
	// the distinct reads of the sync, as the model names them
	var rids []string
	ridOp := map[string]cu.Op{}
	for _, op := range baseOps {
		if op.Mutating() {
			continue
		}
		r := sc.ridOf(op)
		if r == "" {
			return c, fmt.Errorf("a sync read the model does not know: %s %s", op.Kind, op.Name)
		}
		if _, dup := ridOp[r]; !dup {
			ridOp[r] = op
			rids = append(rids, r)
		}
	}

	// 2. a full compactor iteration without faults (what a complete view leads to)
	p, err = newPipeline(in, sc)
	if err != nil {
		return c, err
	}
	fullErr := p.iteration(ctx)
	fullMut := 0
	deleted, gcMarked := map[ulid.ULID]bool{}, map[ulid.ULID]bool{}
	for _, op := range p.bkt.Ops() {
		if op.Mutating() {
			fullMut++
		}
	}
	for _, d := range sc.blocks {
		if d.real {
			continue
		}
		left, err := hasObjects(p.inmem, d.id.String())
		if err != nil {
			return c, err
		}
		if !left {
			deleted[d.id] = true
			continue
		}
		name := path.Join(d.id.String(), metadata.DeletionMarkFilename)
		if _, had := sc.objects[name]; !had {
			if ok, _ := p.inmem.Exists(ctx, name); ok {
				gcMarked[d.id] = true
			}
		}
	}
	p.close()

	// 3. the same iteration with one read of the first sync failing, for every such read
	if in.MaxFaults > 0 && in.MaxFaults < len(rids) {
		r := rand.New(rand.NewSource(in.FaultSeed))
		r.Shuffle(len(rids), func(i, j int) { rids[i], rids[j] = rids[j], rids[i] })
		rids = rids[:in.MaxFaults]
	}
	var runs []string
	var obs []any
	kinds := map[string]int{}
	type fault struct {
		rid  string
		op   cu.Op
		body bool
	}
	var flts []fault
	for _, r := range rids {
		victim := ridOp[r]
		flts = append(flts, fault{r, victim, false})
		// a Get that found the object can also fail in the middle of the body
		if victim.Kind == "get" && !victim.NotFound {
			flts = append(flts, fault{strings.Replace(strings.Replace(strings.Replace(r, "(RMeta ", "(RMetaBody ", 1), "(RDel ", "(RDelBody ", 1), "(RNoc ", "(RNocBody ", 1), victim, true})
		}
	}
	for _, ft := range flts {
		victim := ft.op
		p, err := newPipeline(in, sc)
		if err != nil {
			return c, err
		}
		match := func(kind, name string) bool { return kind == victim.Kind && name == victim.Name }
		if ft.body {
			p.bkt.FailBody = match
		} else {
			p.bkt.FailName = match
		}
		cerr := p.iteration(ctx)
		ops := p.bkt.Ops()
		p.close()
		after, names := mutAfterFault(ops)
		fk := kindOf(victim) + " " + victim.Kind
		if ft.body {
			fk += " body"
		}
		kinds[fk]++
		runs = append(runs, common.Tuple(ft.rid, common.Bool(cerr != nil), common.Nat(after)))
		what := fmt.Sprintf("read %s %q of the sync failed", victim.Kind, victim.Name)
		if ft.body {
			what = fmt.Sprintf("the body of %q failed in the middle of the transfer during the sync", victim.Name)
		}
		if after > 0 && c.GoPred == "" {
			c.GoPred = fmt.Sprintf("%s, yet the compactor afterwards issued %d mutating bucket operation(s): %s", what, after, strings.Join(names, ", "))
			c.Sig = "writes-after-failed-sync"
		}
		if cerr == nil && c.GoPred == "" {
			c.GoPred = fmt.Sprintf("%s but the iteration returned no error", what)
			c.Sig = "failed-read-swallowed"
		}
		if len(obs) < 4 {
			obs = append(obs, map[string]any{"failed_read": victim.Kind + " " + victim.Name, "in_body": ft.body, "iteration_error": cerr != nil, "mutating_ops_after_fault": after})
		}
	}
	c.Obs = map[string]any{"sync_reads": len(ridOp), "sync_fails_by_itself": syncErr != nil, "mutating_ops_on_complete_view": fullMut,
		"complete_view_error": fmt.Sprint(fullErr), "fault_kinds": kinds, "sample_runs": obs, "view": len(metas), "partial": len(partial),
		"cleaned": len(deleted), "gc_marked": len(gcMarked)}
	c.Class = fmt.Sprintf("%s/selfail=%v/cleaner=%v/old=%v", in.Lister, syncErr != nil, in.Cleaner, in.Old)
	c.Nontrivial = fullMut > 0 && len(rids) > 0
	c.Coq = common.App("CSync2", common.Bool(in.Lister == "concurrent"), common.Bool(in.Cleaner), common.Bool(in.Old), sc.coq(), baseTrace,
		sc.idList(metas), sc.idList(partial), common.Bool(syncErr != nil), common.Nat(baseMut),
		sc.idList(deleted), sc.idList(gcMarked), common.Nat(fullMut), common.List(runs))
	return c, nil
}

func hasObjects(bkt objstore.Bucket, dir string) (bool, error) {
	n := 0
	err := bkt.Iter(context.Background(), dir, func(string) error { n++; return nil }, objstore.WithRecursiveIter())
	return n > 0, err
}

func gen(r *rand.Rand, tier string, n int) []any {
	var out []any
	for i := 0; i < n; i++ {
		in := input{Lister: common.Pick(r, "recursive", "concurrent"), Cleaner: r.Intn(4) > 0, FaultSeed: r.Int63()}
		in.OldMarked = r.Intn(3)
		in.RecentMarked = r.Intn(2)
		if r.Intn(2) == 0 {
			in.Duplicates = 1 + r.Intn(3)
		}
		in.NoCompact = r.Intn(2)
		in.Partial = r.Intn(2)
		in.CorruptMeta = r.Intn(2)
		in.CorruptMark = r.Intn(3)
		in.BadVersion = r.Intn(12) == 0
		in.Old = r.Intn(2) == 0
		in.MidMarked = r.Intn(2)
		in.DupRecentMarked = r.Intn(3) == 0
		if r.Intn(12) == 0 {
			in.BadMarkVersion = 1 + r.Intn(2)
		}
		if in.Lister == "concurrent" && r.Intn(3) == 0 {
			in.StressBlocks = 100 + r.Intn(200)
		}
		if tier != "thorough" && r.Intn(2) == 0 {
			in.MaxFaults = 16 // the other half enumerates every read of the sync
		}
		out = append(out, in)
	}
	return out
}

func main() {
	common.Main(common.Prop{ID: "C33", Facts: facts, Gen: gen, Run: run, QuickN: 40, ThoroughN: 300,
		Preamble: "Open Scope Z_scope.\n", CaseTimeout: 120 * time.Second})
}
