// C05: store pruning never skips a store that holds matching data.
//
// Runs the real matchesExternalLabels, storeMatches and ProxyStore.matchingStores
// (through the verif export shim pkg/store/verif_c05.go) on generated proxies /
// stores / selectors, and prints the decisions together with the truth tables of
// the real labels.Matcher.Matches (oracle) as a Coq case.
package main

import (
	"context"
	"encoding/json"
	"fmt"
	"go/ast"
	"go/token"
	"io"
	"math"
	"math/rand"
	"sort"
	"strings"
	"time"

	"github.com/prometheus/common/model"
	"github.com/prometheus/prometheus/model/labels"
	"github.com/prometheus/prometheus/model/relabel"

	"github.com/thanos-io/thanos/pkg/component"
	"github.com/thanos-io/thanos/pkg/store"
	"github.com/thanos-io/thanos/pkg/store/storepb"
	storetestutil "github.com/thanos-io/thanos/pkg/store/storepb/testutil"
	"github.com/thanos-io/thanos/zzverif/common"
)

type lbl [2]string

type matcherIn struct {
	Type  int    `json:"type"` // 0 EQ 1 NEQ 2 RE 3 NRE
	Name  string `json:"name"`
	Value string `json:"value"`
}

type seriesIn struct {
	Labels []lbl   `json:"labels"`
	Times  []int64 `json:"times"`
}

type storeIn struct {
	Min      int64      `json:"min"`
	Max      int64      `json:"max"`
	Exts     [][]lbl    `json:"exts"`
	Addr     string     `json:"addr"`
	Local    bool       `json:"local"`
	FilterOK bool       `json:"filter_ok"`
	Series   []seriesIn `json:"series"`
}

type selectorIn struct {
	Source []string `json:"source"`
	Regex  string   `json:"regex"`
	Drop   bool     `json:"drop"`
}

type input struct {
	// Kind "" = store pruning (storeMatches / matchingStores); "selm" = MatchersForLabelSets
	Kind   string  `json:"kind,omitempty"`
	Lsets  [][]lbl `json:"lsets,omitempty"`
	Probes [][]lbl `json:"probes,omitempty"`

	Sel      []lbl         `json:"sel"`
	Ms       []matcherIn   `json:"ms"`
	Dbg      [][]matcherIn `json:"dbg"`
	Selector *selectorIn   `json:"selector"`
	Mint     int64         `json:"mint"`
	Maxt     int64         `json:"maxt"`
	Stores   []storeIn     `json:"stores"`
}

func facts(repo string, w io.Writer) error {
	s, err := common.ParseSrc(repo, "pkg/store/proxy.go")
	if err != nil {
		return err
	}
	fd, err := s.FindFunc("storeMatches")
	if err != nil {
		return err
	}
	// the first `if a || b { ... return false ... }` of storeMatches: the time-range test
	var cond ast.Expr
	for _, st := range fd.Body.List {
		if is, ok := st.(*ast.IfStmt); ok && is.Init == nil {
			if be, ok := is.Cond.(*ast.BinaryExpr); ok && be.Op == token.LOR {
				cond = is.Cond
				break
			}
		}
	}
	if cond == nil {
		return fmt.Errorf("srcfacts: pkg/store/proxy.go: storeMatches: time-range `if a || b` not found")
	}
	e, err := s.TranslateExpr(cond, nil, nil)
	if err != nil {
		return err
	}
	fmt.Fprintf(w, "(* pkg/store/proxy.go storeMatches: `if %s` => store skipped for its time range *)\n", s.ExprString(cond))
	fmt.Fprintf(w, "Definition time_skip (mint maxt storeMinTime storeMaxTime : Z) : bool :=\n  %s.\n", e)
	return nil
}

func mkLabels(ls []lbl) labels.Labels {
	out := make([]labels.Label, 0, len(ls))
	for _, l := range ls {
		out = append(out, labels.Label{Name: l[0], Value: l[1]})
	}
	return labels.New(out...)
}

func coqLabels(l labels.Labels) string {
	var ps []string
	l.Range(func(x labels.Label) {
		ps = append(ps, common.Pair(common.Bytes(x.Name), common.Bytes(x.Value)))
	})
	return common.List(ps)
}

func toPB(ms []matcherIn) []storepb.LabelMatcher {
	out := make([]storepb.LabelMatcher, 0, len(ms))
	for _, m := range ms {
		out = append(out, storepb.LabelMatcher{Type: storepb.LabelMatcher_Type(m.Type), Name: m.Name, Value: m.Value})
	}
	return out
}

func reasonCode(ok bool, reason string) int64 {
	switch {
	case ok:
		return 0
	case strings.Contains(reason, "does not have data within this time period"):
		return 1
	case strings.Contains(reason, "the store is not remote"):
		return 2
	case strings.Contains(reason, "__address__"):
		return 3
	case strings.Contains(reason, "external labels"):
		return 4
	case strings.Contains(reason, "does not match filter"):
		return 5
	}
	return 9
}

func run(raw json.RawMessage) (common.Case, error) {
	var in input
	if err := json.Unmarshal(raw, &in); err != nil {
		return common.Case{}, err
	}
	var c common.Case
	if in.Kind == "selm" {
		return runSelM(in)
	}
	sel := mkLabels(in.Sel)

	// universe of strings the matchers are asked about
	uni := map[string]struct{}{"": {}}
	addL := func(l labels.Labels) {
		l.Range(func(x labels.Label) { uni[x.Value] = struct{}{} })
	}
	addL(sel)
	type stT struct {
		cl   *storetestutil.TestClient
		exts []labels.Labels
		sers []labels.Labels
	}
	sts := make([]stT, len(in.Stores))
	for i, s := range in.Stores {
		uni[s.Addr] = struct{}{}
		for _, e := range s.Exts {
			l := mkLabels(e)
			addL(l)
			sts[i].exts = append(sts[i].exts, l)
		}
		for _, se := range s.Series {
			l := mkLabels(se.Labels)
			addL(l)
			sts[i].sers = append(sts[i].sers, l)
		}
		sts[i].cl = &storetestutil.TestClient{Name: s.Addr, ExtLset: sts[i].exts, MinTime: s.Min, MaxTime: s.Max,
			IsLocalStore: s.Local, StoreFilterNotMatches: !s.FilterOK}
	}
	var uniL []string
	for v := range uni {
		uniL = append(uniL, v)
	}
	sort.Strings(uniL)

	prom := func(ms []matcherIn) ([]*labels.Matcher, error) {
		return storepb.MatchersToPromMatchers(toPB(ms)...)
	}
	coqMatcher := func(id int, m *labels.Matcher) string {
		var rows []string
		for _, v := range uniL {
			rows = append(rows, common.Pair(common.Bytes(v), common.Bool(m.Matches(v))))
		}
		return common.App("MkM", common.Nat(id), common.Bytes(m.Name), common.List(rows))
	}
	allMs, err := prom(in.Ms)
	if err != nil {
		return c, err
	}
	var coqMs []string
	for i, m := range allMs {
		coqMs = append(coqMs, coqMatcher(i, m))
	}
	var dbg [][]*labels.Matcher
	var coqDbg []string
	for _, d := range in.Dbg {
		pm, err := prom(d)
		if err != nil {
			return c, err
		}
		dbg = append(dbg, pm)
		var xs []string
		for i, m := range pm {
			xs = append(xs, coqMatcher(i, m))
		}
		coqDbg = append(coqDbg, common.List(xs))
	}

	var relabelCfg []*relabel.Config
	if in.Selector != nil {
		var src model.LabelNames
		for _, n := range in.Selector.Source {
			src = append(src, model.LabelName(n))
		}
		re, err := relabel.NewRegexp(in.Selector.Regex)
		if err != nil {
			return c, err
		}
		act := relabel.Keep
		if in.Selector.Drop {
			act = relabel.Drop
		}
		relabelCfg = []*relabel.Config{{SourceLabels: src, Separator: ";", Regex: re, Action: act}}
	}

	// ---- the real code ----
	ok, kept, err := store.VerifC05MatchesExternalLabels(toPB(in.Ms), sel)
	if err != nil {
		return c, err
	}
	oExt := common.None
	var reasons []int64
	var keptIdx []int
	var oKept []string
	var oLsets []string
	var queried []int
	var extraLsets []labels.Labels
	obs := map[string]any{"ext_match": ok}
	if ok {
		// positions of the kept matchers: kept is an order-preserving sub-list of the request's matchers
		j := 0
		for _, k := range kept {
			for j < len(allMs) && allMs[j].String() != k.String() {
				j++
			}
			if j == len(allMs) {
				return c, fmt.Errorf("kept matcher %s is not a request matcher (in order)", k)
			}
			keptIdx = append(keptIdx, j)
			j++
		}
		var ks []string
		for _, k := range keptIdx {
			ks = append(ks, common.Nat(k))
		}
		oExt = common.Some(common.List(ks))

		ctx := context.Background()
		if len(dbg) > 0 {
			ctx = context.WithValue(ctx, store.StoreMatcherKey, dbg)
		}
		var clients []store.Client
		for i := range sts {
			clients = append(clients, sts[i].cl)
			o, reason := store.VerifC05StoreMatches(ctx, false, sts[i].cl, in.Mint, in.Maxt, kept...)
			reasons = append(reasons, reasonCode(o, reason))
		}
		var opts []store.ProxyStoreOption
		if relabelCfg != nil {
			opts = append(opts, store.WithTSDBSelector(store.NewTSDBSelector(relabelCfg)))
		}
		p := store.NewProxyStore(nil, nil, func() []store.Client { return clients }, component.Query, sel, 0*time.Second, store.EagerRetrieval, opts...)
		got, lsets := p.VerifC05MatchingStores(ctx, clients, in.Mint, in.Maxt, kept)
		var gotIdx []int
		for _, g := range got {
			idx := -1
			for i := range sts {
				if g == store.Client(sts[i].cl) {
					idx = i
				}
			}
			if idx < 0 {
				return c, fmt.Errorf("matchingStores returned an unknown client")
			}
			gotIdx = append(gotIdx, idx)
			oKept = append(oKept, common.Nat(idx))
		}
		for _, l := range lsets {
			oLsets = append(oLsets, coqLabels(l))
		}
		obs["kept_matchers"] = keptIdx
		obs["reasons"] = reasons
		obs["queried"] = gotIdx
		queried, extraLsets = gotIdx, lsets
		obs["label_sets"] = len(lsets)
	}
	c.Obs = obs

	// ---- the case ----
	var coqStores []string
	anySeries := false
	for i, s := range in.Stores {
		var exts, keeps, sers []string
		for _, e := range sts[i].exts {
			exts = append(exts, coqLabels(e))
			k := true
			if relabelCfg != nil {
				_, k = relabel.Process(e, relabelCfg...)
			}
			keeps = append(keeps, common.Bool(k))
		}
		for j, se := range s.Series {
			sers = append(sers, common.Pair(coqLabels(sts[i].sers[j]), common.ZList(se.Times)))
			anySeries = true
		}
		st := common.App("MkStore", common.Z(s.Min), common.Z(s.Max), common.List(exts), common.List(keeps),
			common.Bytes(s.Addr), common.Bool(s.Local), common.Bool(s.FilterOK))
		coqStores = append(coqStores, common.Pair(st, common.List(sers)))
	}
	c.Coq = common.App("CPrune", coqLabels(sel), common.List(coqMs), common.List(coqDbg), common.Bool(relabelCfg != nil),
		common.Z(in.Mint), common.Z(in.Maxt), common.List(coqStores),
		oExt, common.ZList(reasons), common.List(oKept), common.List(oLsets))

	// ---- Go-side predicate (search aid) ----
	extends := func(s, e labels.Labels) bool {
		r := true
		e.Range(func(x labels.Label) {
			if s.Get(x.Name) != e.Get(x.Name) {
				r = false
			}
		})
		return r
	}
	pruned := 0
	for i, s := range in.Stores {
		skipped := !ok || reasons[i] == 1 || reasons[i] == 4
		if !skipped {
			continue
		}
		pruned++
		for j, se := range s.Series {
			l := sts[i].sers[j]
			valid := extends(l, sel)
			if len(sts[i].exts) > 0 {
				any := false
				for _, e := range sts[i].exts {
					any = any || extends(l, e)
				}
				valid = valid && any
			}
			inRange := false
			for _, t := range se.Times {
				valid = valid && s.Min <= t && t <= s.Max
				inRange = inRange || (in.Mint <= t && t <= in.Maxt)
			}
			if !valid || !inRange {
				continue
			}
			all := true
			for _, m := range allMs {
				all = all && m.Matches(l.Get(m.Name))
			}
			if all {
				why := "time-range"
				if !ok {
					why = "selector-labels"
				} else if reasons[i] == 4 {
					why = "external-labels"
				}
				c.GoPred = fmt.Sprintf("store %d was skipped (%s) but its series %s matches the request", i, why, l)
				c.Sig = "pruned-store-has-matching-series/" + why
			}
		}
	}
	// with a TSDB selector: the extra matchers generated for the returned label sets must not reject
	// series of a queried store that carry one of its kept label sets (checked for label sets with
	// the same names)
	selCase := false
	if relabelCfg != nil && ok {
		homog := true
		var first []string
		firstSet := false
		for i := range sts {
			for _, e := range sts[i].exts {
				var ns []string
				e.Range(func(x labels.Label) { ns = append(ns, x.Name) })
				if !firstSet {
					first, firstSet = ns, true
				} else if fmt.Sprint(ns) != fmt.Sprint(first) {
					homog = false
				}
			}
		}
		if homog {
			var extra []*labels.Matcher
			for _, m := range store.MatchersForLabelSets(extraLsets) {
				pm, err := storepb.MatcherToPromMatcher(m)
				if err != nil {
					return c, err
				}
				extra = append(extra, pm)
			}
			for _, i := range queried {
				for j, se := range in.Stores[i].Series {
					l := sts[i].sers[j]
					carriesKept := false
					for _, e := range sts[i].exts {
						if _, keep := relabel.Process(e, relabelCfg...); keep && extends(l, e) {
							carriesKept = true
						}
					}
					valid := carriesKept && extends(l, sel)
					inRange := false
					for _, t := range se.Times {
						valid = valid && in.Stores[i].Min <= t && t <= in.Stores[i].Max
						inRange = inRange || (in.Mint <= t && t <= in.Maxt)
					}
					all := true
					for _, m := range allMs {
						all = all && m.Matches(l.Get(m.Name))
					}
					if !valid || !inRange || !all {
						continue
					}
					selCase = true
					for _, m := range extra {
						if !m.Matches(l.Get(m.Name)) && c.GoPred == "" {
							c.GoPred = fmt.Sprintf("store %d is queried and its series %s carries a label set kept by the TSDB selector, but the extra matcher %s generated for the kept label sets rejects it", i, l, m)
							c.Sig = "selector-extra-matcher-skips-kept-data"
						}
					}
				}
			}
		}
	}
	switch {
	case !ok:
		c.Class = "selector-labels-contradict"
	case pruned > 0:
		c.Class = "some-store-pruned"
	default:
		c.Class = "none-pruned"
	}
	// non-trivial: a store with series was pruned for time range / labels
	if selCase {
		c.Class += "/tsdb-selector"
	}
	c.Nontrivial = (pruned > 0 && anySeries) || selCase
	return c, nil
}

// runSelM: the extra matchers generated for the label sets kept by the TSDB selector, and the
// verdict of the real regex matchers on probe series.
func runSelM(in input) (common.Case, error) {
	var c common.Case
	c.Class = "selector-matchers"
	var lsets []labels.Labels
	var coqL []string
	for _, l := range in.Lsets {
		x := mkLabels(l)
		lsets = append(lsets, x)
		coqL = append(coqL, coqLabels(x))
	}
	ms := store.MatchersForLabelSets(lsets)
	sort.Slice(ms, func(i, j int) bool { return ms[i].Name < ms[j].Name })
	var coqMs []string
	var pms []*labels.Matcher
	for _, m := range ms {
		coqMs = append(coqMs, common.Pair(common.Bytes(m.Name), common.Bytes(m.Value)))
		pm, err := storepb.MatcherToPromMatcher(m)
		if err != nil {
			return c, err
		}
		pms = append(pms, pm)
	}
	var coqP []string
	for _, p := range in.Probes {
		l := mkLabels(p)
		var bs []string
		carried := -1
		for i, e := range lsets {
			ok := true
			e.Range(func(x labels.Label) {
				if l.Get(x.Name) != x.Value {
					ok = false
				}
			})
			if ok && carried < 0 {
				carried = i
			}
		}
		for _, pm := range pms {
			acc := pm.Matches(l.Get(pm.Name))
			bs = append(bs, common.Bool(acc))
			if !acc && carried >= 0 {
				c.GoPred = fmt.Sprintf("series %s carries the kept label set %s but the extra matcher %s rejects it", l, lsets[carried], pm)
				c.Sig = "selector-matcher-rejects"
				if !lsets[carried].Has(pm.Name) && l.Has(pm.Name) {
					c.Sig = "selector-matcher-rejects-own-label"
				}
			}
		}
		coqP = append(coqP, common.Pair(coqLabels(l), common.List(bs)))
	}
	c.Coq = common.App("CSelM", common.List(coqL), common.List(coqMs), common.List(coqP))
	c.Obs = map[string]any{"matchers": fmt.Sprint(ms)}
	c.Nontrivial = len(lsets) >= 2 && len(in.Probes) > 0
	return c, nil
}

func genSelM(r *rand.Rand) input {
	in := input{Kind: "selm"}
	names := []string{"a", "b", "region"}
	n := 1 + r.Intn(3)
	homogeneous := r.Intn(10) != 0
	base := names[:1+r.Intn(3)]
	for i := 0; i < n; i++ {
		var l []lbl
		for _, nm := range base {
			if !homogeneous && r.Intn(3) == 0 {
				continue
			}
			l = append(l, lbl{nm, common.Pick(r, lvalues...)})
		}
		if len(l) == 0 { // an empty kept set makes every series "its" series (see the known finding)
			l = append(l, lbl{base[0], common.Pick(r, lvalues...)})
		}
		in.Lsets = append(in.Lsets, l)
	}
	for k := r.Intn(4); k >= 0; k-- {
		// a series of one of the kept sets, with own labels that no kept set mentions
		p := append([]lbl(nil), in.Lsets[r.Intn(len(in.Lsets))]...)
		p = append(p, lbl{"__name__", "up"})
		if r.Intn(2) == 0 {
			p = append(p, lbl{"zz", common.Pick(r, lvalues...)})
		}
		if r.Intn(4) == 0 { // a series of none of the sets
			p = []lbl{{"a", "nope"}, {"region", common.Pick(r, lvalues...)}}
		}
		in.Probes = append(in.Probes, p)
	}
	return in
}

// genSelectorCase: a TSDB selector on the shared external label "cluster": some stores have all of
// their label sets kept, others only some of them; series carry kept or dropped sets.
func genSelectorCase(r *rand.Rand) input {
	var in input
	vals := []string{"a", "b1", "b2", "c1", "c2", "d"}
	keepN := 1 + r.Intn(len(vals)-1)
	perm := r.Perm(len(vals))
	var keep []string
	for _, k := range perm[:keepN] {
		keep = append(keep, vals[k])
	}
	in.Selector = &selectorIn{Source: []string{"cluster"}, Regex: strings.Join(keep, "|")}
	if r.Intn(3) == 0 { // the same selection written as a drop rule
		var drop []string
		for _, k := range perm[keepN:] {
			drop = append(drop, vals[k])
		}
		in.Selector = &selectorIn{Source: []string{"cluster"}, Regex: strings.Join(drop, "|"), Drop: true}
	}
	in.Ms = []matcherIn{common.Pick(r, matcherIn{Type: 2, Name: "__name__", Value: ".+"}, matcherIn{Type: 1, Name: "__name__", Value: ""}, matcherIn{Type: 0, Name: "__name__", Value: "up"})}
	if r.Intn(3) == 0 {
		in.Ms = append(in.Ms, matcherIn{Type: r.Intn(4), Name: "cluster", Value: common.Pick(r, "a", "b1", "b.", "c1|c2", "")})
	}
	in.Mint, in.Maxt = 0, 100
	used := 0
	for k := 1 + r.Intn(3); k >= 0; k-- {
		s := storeIn{Min: 0, Max: 100, Addr: fmt.Sprintf("s%d:10901", k), FilterOK: true}
		for q := 1 + r.Intn(3); q > 0 && used < len(vals); q-- {
			s.Exts = append(s.Exts, []lbl{{"cluster", vals[perm[(used*5+k)%len(vals)]]}})
			used++
		}
		if len(s.Exts) == 0 {
			s.Exts = append(s.Exts, []lbl{{"cluster", vals[r.Intn(len(vals))]}})
		}
		for q := 1 + r.Intn(3); q > 0; q-- {
			e := s.Exts[r.Intn(len(s.Exts))]
			ls := []lbl{{"__name__", common.Pick(r, "up", "m")}, e[0]}
			if r.Intn(2) == 0 {
				ls = append(ls, lbl{common.Pick(r, "a", "b"), common.Pick(r, lvalues...)})
			}
			s.Series = append(s.Series, seriesIn{Labels: ls, Times: []int64{common.Between(r, 0, 100)}})
		}
		in.Stores = append(in.Stores, s)
	}
	return in
}

// ---- generator ----

var (
	lnames  = []string{"a", "b", "c", "region"}
	lvalues = []string{"1", "2", "x", "eu", "us"}
	mvalues = []string{"", "1", "2", "x", "eu", "us", "3", "1|2", ".*", ".+", "x.*", "[12]", "e.", "eu|us", "|1", "(1|)"}
	addrs   = []string{"s1:10901", "s2:10901", "10.0.0.1:9090", "local"}
)

func genLabels(r *rand.Rand, max int) []lbl {
	n := r.Intn(max + 1)
	seen := map[string]bool{}
	var out []lbl
	for i := 0; i < n; i++ {
		nm := common.Pick(r, lnames...)
		if seen[nm] {
			continue
		}
		seen[nm] = true
		v := common.Pick(r, lvalues...)
		if r.Intn(25) == 0 {
			v = "" // empty-valued label: Has is true, Get is ""
		}
		out = append(out, lbl{nm, v})
	}
	return out
}

func genMatcher(r *rand.Rand, names []string) matcherIn {
	return matcherIn{Type: r.Intn(4), Name: common.Pick(r, names...), Value: common.Pick(r, mvalues...)}
}

func overlay(base, over []lbl) []lbl {
	m := map[string]string{}
	var order []string
	for _, l := range base {
		if _, ok := m[l[0]]; !ok {
			order = append(order, l[0])
		}
		m[l[0]] = l[1]
	}
	for _, l := range over {
		if _, ok := m[l[0]]; !ok {
			order = append(order, l[0])
		}
		m[l[0]] = l[1]
	}
	var out []lbl
	for _, n := range order {
		out = append(out, lbl{n, m[n]})
	}
	return out
}

func gen(r *rand.Rand, tier string, n int) []any {
	var out []any
	for i := 0; i < n; i++ {
		var in input
		if r.Intn(12) == 0 {
			out = append(out, genSelM(r))
			continue
		}
		if r.Intn(12) == 0 {
			out = append(out, genSelectorCase(r))
			continue
		}
		if r.Intn(3) == 0 {
			in.Sel = genLabels(r, 2)
		}
		mnames := append([]string{"__name__"}, lnames...)
		if r.Intn(10) == 0 {
			mnames = append(mnames, "__address__")
		}
		for k := r.Intn(4); k >= 0; k-- {
			in.Ms = append(in.Ms, genMatcher(r, mnames))
		}
		if r.Intn(5) == 0 {
			for k := r.Intn(2); k >= 0; k-- {
				var set []matcherIn
				for q := r.Intn(2); q >= 0; q-- {
					m := genMatcher(r, []string{"__address__", "__address__", "a"})
					m.Value = common.Pick(r, "s1:10901", "s2:10901", "s.*", "10.*", ".*", "local", "")
					set = append(set, m)
				}
				in.Dbg = append(in.Dbg, set)
			}
		}
		if r.Intn(4) == 0 {
			in.Selector = &selectorIn{Source: []string{common.Pick(r, lnames...)}, Regex: common.Pick(r, "1", "1|2", "eu", ".+", "", "x"), Drop: r.Intn(4) == 0}
		}
		base := common.Pick(r, int64(0), 1000, 1600000000000, -500)
		in.Mint = base + common.Between(r, -5, 20)
		in.Maxt = in.Mint + common.Between(r, 0, 20)
		switch r.Intn(20) {
		case 0:
			in.Mint = math.MinInt64
		case 1:
			in.Maxt = math.MaxInt64
		case 2:
			in.Maxt = in.Mint - 1 - common.Between(r, 0, 3) // inverted query range
		}
		for k := r.Intn(4); k >= 0; k-- {
			var s storeIn
			s.Min = base + common.Between(r, -10, 25)
			s.Max = s.Min + common.Between(r, 0, 20)
			switch r.Intn(12) {
			case 0: // touch the query range exactly
				s.Max = in.Mint
				s.Min = s.Max - common.Between(r, 0, 5)
			case 1:
				s.Min = in.Maxt
				s.Max = s.Min + common.Between(r, 0, 5)
			case 2: // just outside
				s.Max = in.Mint - 1
				s.Min = s.Max - common.Between(r, 0, 5)
			case 3:
				s.Min = in.Maxt + 1
				s.Max = s.Min + common.Between(r, 0, 5)
			case 4:
				s.Min, s.Max = math.MinInt64, math.MaxInt64
			case 5:
				s.Min, s.Max = math.MaxInt64, math.MaxInt64 // uninitialised TSDB
			}
			for q := r.Intn(4); q > 0; q-- {
				s.Exts = append(s.Exts, genLabels(r, 3))
			}
			s.Addr = common.Pick(r, addrs...)
			s.Local = r.Intn(6) == 0
			s.FilterOK = r.Intn(8) != 0
			for q := r.Intn(4); q > 0; q-- {
				var se seriesIn
				own := genLabels(r, 3)
				own = append(own, lbl{"__name__", common.Pick(r, "up", "x", "1")})
				se.Labels = own
				bad := r.Intn(12) == 0 // a series the store would not present this way
				if !bad {
					if len(s.Exts) > 0 {
						se.Labels = overlay(se.Labels, s.Exts[r.Intn(len(s.Exts))])
					}
					se.Labels = overlay(se.Labels, in.Sel)
				}
				for z := r.Intn(3); z >= 0; z-- {
					t := s.Min
					if s.Max > s.Min {
						d := s.Max - s.Min
						if d < 0 || d > 1000 {
							d = 1000
						}
						t = s.Min + r.Int63n(d+1)
					}
					if r.Intn(3) == 0 {
						t = common.Pick(r, s.Min, s.Max)
					}
					if bad && r.Intn(2) == 0 {
						t = in.Mint
					}
					se.Times = append(se.Times, t)
				}
				s.Series = append(s.Series, se)
			}
			in.Stores = append(in.Stores, s)
		}
		// bias matchers towards values that occur, so that pruning decisions go both ways
		if r.Intn(2) == 0 && len(in.Stores) > 0 {
			s := in.Stores[r.Intn(len(in.Stores))]
			if len(s.Exts) > 0 {
				e := s.Exts[r.Intn(len(s.Exts))]
				if len(e) > 0 {
					l := e[r.Intn(len(e))]
					in.Ms = append(in.Ms, matcherIn{Type: r.Intn(4), Name: l[0], Value: l[1]})
				}
			}
		}
		out = append(out, in)
	}
	return out
}

func main() {
	common.Main(common.Prop{ID: "C05", Facts: facts, Gen: gen, Run: run, QuickN: 1000, ThoroughN: 6000,
		Preamble: "Open Scope Z_scope.\n"})
}
