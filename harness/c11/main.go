// C11: binary index-header answers equal the full index.
package main

import (
	"context"
	"encoding/json"
	"fmt"
	"io"
	"math/rand"
	"os"
	"path/filepath"
	"sort"
	"strings"

	"github.com/go-kit/log"
	"github.com/oklog/ulid/v2"
	"github.com/prometheus/prometheus/model/labels"
	"github.com/prometheus/prometheus/storage"
	"github.com/prometheus/prometheus/tsdb/index"
	"github.com/thanos-io/objstore"

	"github.com/thanos-io/thanos/pkg/block"
	"github.com/thanos-io/thanos/pkg/block/indexheader"
	"github.com/thanos-io/thanos/zzverif/common"
	"github.com/thanos-io/thanos/zzverif/storegwutil"
)

type input struct {
	Kind     string     `json:"kind"`   // name | names | absent | symbols
	Series   [][]string `json:"series"` // each: name1,value1,name2,value2,...
	Sampling int        `json:"sampling"`
	Name     string     `json:"name"`
	Queries  [][]string `json:"queries"`
	// symhist: NValues short values of one label (so that the index has > 1024 symbols) and the references looked up, in order, on ONE reader
	NValues int      `json:"nvalues,omitempty"`
	Lookups []uint32 `json:"lookups,omitempty"`
}

func facts(repo string, w io.Writer) error {
	s, err := common.ParseSrc(repo, "pkg/block/indexheader/binary_reader.go")
	if err != nil {
		return err
	}
	conds, err := storegwutil.IfConds(s, "BinaryReader.init", "valueCount")
	if err != nil {
		return err
	}
	if len(conds) != 3 {
		return fmt.Errorf("BinaryReader.init: expected 3 sampling conditions on valueCount, found %d", len(conds))
	}
	consts := map[string]string{"r.postingOffsetsInMemSampling": "n"}
	names := []string{"sample_last_switch", "sample_keep", "sample_last_end"}
	fmt.Fprintln(w, "(* pkg/block/indexheader/binary_reader.go, BinaryReader.init: the three sampling conditions, in source order;")
	fmt.Fprintln(w, "   n = r.postingOffsetsInMemSampling *)")
	for i, c := range conds {
		e, err := s.TranslateExpr(c, consts, nil)
		if err != nil {
			return err
		}
		fmt.Fprintf(w, "(* %s *)\nDefinition %s (valueCount n : Z) : bool := %s.\n", s.ExprString(c), names[i], e)
	}
	// LookupSymbol: the hit test of the value-symbol cache (all if-conditions of the function, in source order)
	lc, err := storegwutil.IfConds(s, "BinaryReader.LookupSymbol", "")
	if err != nil {
		return err
	}
	var evs []common.Event
	for _, c := range lc {
		evs = append(evs, common.Event{Kind: "if", Text: s.ExprString(c)})
	}
	fmt.Fprintln(w, "(* BinaryReader.LookupSymbol: the conditions of its if statements, in source order *)")
	fmt.Fprint(w, common.EventsCoq("lookup_symbol_conds", evs))
	ok := len(lc) == 4 && s.ExprString(lc[2]) == `cached.index == o && cached.symbol != ""`
	fmt.Fprintf(w, "(* the cache hit test compares the slot's index with the looked-up reference *)\nDefinition lookup_symbol_cond_ok : bool := %v.\n", ok)
	fmt.Fprintf(w, "Definition not_found_range : Z * Z := (%d, %d).\n", indexheader.NotFoundRange.Start, indexheader.NotFoundRange.End)
	return nil
}

type env struct {
	dir   string
	lr    *indexheader.LazyBinaryReader // the same header through the lazy reader (file-based, loaded on first use)
	br    *indexheader.BinaryReader
	ir    *index.Reader
	table map[string][]indexheader.VerifC11Entry
	order []string // names in table order
	all   []indexheader.VerifC11Entry
}

func (e *env) close() {
	if e.lr != nil {
		e.lr.Close()
	}
	if e.br != nil {
		e.br.Close()
	}
	if e.ir != nil {
		e.ir.Close()
	}
	os.RemoveAll(e.dir)
}

func build(in input) (*env, error) {
	ctx := context.Background()
	dir, err := os.MkdirTemp("", "c11-")
	if err != nil {
		return nil, err
	}
	e := &env{dir: dir, table: map[string][]indexheader.VerifC11Entry{}}
	ok := false
	defer func() {
		if !ok {
			e.close()
		}
	}()
	var lsets []labels.Labels
	syms := map[string]struct{}{}
	for _, s := range in.Series {
		if len(s)%2 != 0 {
			return nil, fmt.Errorf("odd series label list")
		}
		lsets = append(lsets, labels.FromStrings(s...))
		for _, x := range s {
			syms[x] = struct{}{}
		}
	}
	sort.Slice(lsets, func(i, j int) bool { return labels.Compare(lsets[i], lsets[j]) < 0 })
	var symList []string
	for s := range syms {
		symList = append(symList, s)
	}
	sort.Strings(symList)
	id := ulid.MustNew(1, nil)
	fn := filepath.Join(dir, "index")
	w, err := index.NewWriter(ctx, fn)
	if err != nil {
		return nil, err
	}
	for _, s := range symList {
		if err := w.AddSymbol(s); err != nil {
			return nil, err
		}
	}
	for i, l := range lsets {
		if err := w.AddSeries(storage.SeriesRef(i+1), l); err != nil {
			return nil, err
		}
	}
	if err := w.Close(); err != nil {
		return nil, err
	}
	b, err := os.ReadFile(fn)
	if err != nil {
		return nil, err
	}
	bkt := objstore.NewInMemBucket()
	if err := bkt.Upload(ctx, filepath.Join(id.String(), block.IndexFilename), strings.NewReader(string(b))); err != nil {
		return nil, err
	}
	e.br, err = indexheader.NewBinaryReader(ctx, log.NewNopLogger(), bkt, "", id, in.Sampling, indexheader.NewBinaryReaderMetrics(nil))
	if err != nil {
		return nil, err
	}
	// lazy reader over the same block; lazy download of the header file for every other sampling rate
	e.lr, err = indexheader.NewLazyBinaryReader(ctx, log.NewNopLogger(), bkt, dir, id, in.Sampling,
		indexheader.NewLazyBinaryReaderMetrics(nil), indexheader.NewBinaryReaderMetrics(nil), nil, in.Sampling%2 == 0)
	if err != nil {
		return nil, err
	}
	e.ir, err = index.NewFileReader(fn, index.DecodePostingsRaw)
	if err != nil {
		return nil, err
	}
	e.all, err = e.br.VerifC11Table()
	if err != nil {
		return nil, err
	}
	for _, t := range e.all {
		if _, ok := e.table[t.Name]; !ok {
			e.order = append(e.order, t.Name)
		}
		e.table[t.Name] = append(e.table[t.Name], t)
	}
	ok = true
	return e, nil
}

func strList(xs []string) string {
	s := make([]string, len(xs))
	for i, x := range xs {
		s[i] = common.Bytes(x)
	}
	return common.List(s)
}

func rangeList(rs []index.Range) string {
	s := make([]string, len(rs))
	for i, r := range rs {
		s[i] = common.Pair(common.Z(r.Start), common.Z(r.End))
	}
	return common.List(s)
}

func run(raw json.RawMessage) (common.Case, error) {
	var in input
	if err := json.Unmarshal(raw, &in); err != nil {
		return common.Case{}, err
	}
	var c common.Case
	c.Class = in.Kind
	if in.Sampling < 1 {
		return c, fmt.Errorf("sampling must be >= 1")
	}
	if in.Kind == "symhist" {
		in.Series = nil
		for i := 0; i < in.NValues; i++ {
			in.Series = append(in.Series, []string{"job", "j", "v", fmt.Sprintf("%04d", i)})
		}
	}
	e, err := build(in)
	if err != nil {
		return c, err
	}
	defer e.close()
	ctx := context.Background()
	switch in.Kind {
	case "name":
		ents, ok := e.table[in.Name]
		if !ok {
			return c, fmt.Errorf("name %q not in table", in.Name)
		}
		// next_off: postings offset of the entry following this name's entries, or indexLastPostingEnd
		nextOff := e.br.VerifC11IndexLastPostingEnd()
		for i, t := range e.all {
			if t.Name == in.Name && i+1 < len(e.all) && e.all[i+1].Name != in.Name {
				nextOff = int64(e.all[i+1].Offset)
			}
		}
		pos := map[int]int{}
		var tbl []string
		for i, t := range ents {
			pos[t.TableOff] = i
			tbl = append(tbl, common.Pair(common.Bytes(t.Value), common.ZU(t.Offset)))
		}
		sv, so, lastVal, ok := e.br.VerifC11Sampled(in.Name)
		if !ok {
			return c, fmt.Errorf("no sampled offsets for %q", in.Name)
		}
		var samp []string
		for i := range sv {
			p, ok := pos[so[i]]
			if !ok {
				p = 1 << 30 // a tableOff that is not the start of an entry of this name
			}
			samp = append(samp, common.Pair(common.Bytes(sv[i]), common.Nat(p)))
		}
		full, err := e.ir.PostingsRanges()
		if err != nil {
			return c, err
		}
		var qs []string
		type qobs struct {
			Values []string
			Impl   []index.Range
			Err    string
		}
		var obs []qobs
		maxLen := 0
		for _, q := range in.Queries {
			out, err := e.br.PostingsOffsets(in.Name, q...)
			var fr []index.Range
			for _, v := range q {
				r, ok := full[labels.Label{Name: in.Name, Value: v}]
				if !ok {
					r = indexheader.NotFoundRange
				}
				fr = append(fr, r)
			}
			o := qobs{Values: q, Impl: out}
			outS := common.None
			if err != nil {
				o.Err = "error"
				if c.GoPred == "" {
					c.GoPred = "PostingsOffsets returned an error for a name that exists"
					c.Sig = "offsets-error"
				}
			} else {
				outS = common.Some(rangeList(out))
				if fmt.Sprint(out) != fmt.Sprint(fr) && len(q) > 0 && c.GoPred == "" {
					c.GoPred = fmt.Sprintf("PostingsOffsets(%q, %q) = %v, full index says %v", in.Name, q, out, fr)
					c.Sig = "offsets-differ"
				}
			}
			if len(q) > maxLen {
				maxLen = len(q)
			}
			obs = append(obs, o)
			qs = append(qs, common.Tuple(strList(q), outS, rangeList(fr)))
			// the same request through the LazyBinaryReader: one more observed query
			lout, lerr := e.lr.PostingsOffsets(in.Name, q...)
			loutS := common.None
			if lerr == nil {
				loutS = common.Some(rangeList(lout))
			}
			if (lerr != nil || fmt.Sprint(lout) != fmt.Sprint(out)) && c.GoPred == "" {
				c.GoPred = fmt.Sprintf("LazyBinaryReader.PostingsOffsets(%q, %q) = %v, %v; BinaryReader says %v", in.Name, q, lout, lerr, out)
				c.Sig = "lazy-reader-differs"
			}
			qs = append(qs, common.Tuple(strList(q), loutS, rangeList(fr)))
			if len(q) == 1 {
				r1, err1 := e.lr.PostingsOffset(in.Name, q[0])
				if (err1 != nil) != (fr[0] == indexheader.NotFoundRange) || (err1 == nil && r1 != fr[0]) {
					if c.GoPred == "" {
						c.GoPred = fmt.Sprintf("LazyBinaryReader.PostingsOffset(%q,%q) = %v,%v; full index says %v", in.Name, q[0], r1, err1, fr[0])
						c.Sig = "lazy-reader-differs"
					}
				}
			}
			// single-value entry point must agree with the multi-value one
			if len(q) == 1 {
				r1, err1 := e.br.PostingsOffset(in.Name, q[0])
				if (err1 != nil) != (fr[0] == indexheader.NotFoundRange) || (err1 == nil && r1 != fr[0]) {
					if c.GoPred == "" {
						c.GoPred = fmt.Sprintf("PostingsOffset(%q,%q) = %v,%v; full index says %v", in.Name, q[0], r1, err1, fr[0])
						c.Sig = "offset-differs"
					}
				}
			}
		}
		lvImpl, err := e.br.LabelValues(in.Name)
		lvS := common.None
		if err == nil {
			lvS = common.Some(strList(lvImpl))
		}
		lvFull, err := e.ir.LabelValues(ctx, in.Name, nil)
		if err != nil {
			return c, err
		}
		if lvLazy, err := e.lr.LabelValues(in.Name); (err != nil || fmt.Sprintf("%q", lvLazy) != fmt.Sprintf("%q", lvFull)) && c.GoPred == "" {
			c.GoPred = "LazyBinaryReader.LabelValues differ from the full index"
			c.Sig = "lazy-reader-differs"
		}
		if fmt.Sprintf("%q", lvImpl) != fmt.Sprintf("%q", lvFull) && c.GoPred == "" {
			c.GoPred = "LabelValues differ from the full index"
			c.Sig = "label-values-differ"
		}
		c.Coq = common.App("CName", common.Z(int64(in.Sampling)), common.List(tbl), common.Z(nextOff),
			common.List(samp), common.Z(lastVal), common.List(qs), lvS, strList(lvFull))
		c.Obs = map[string]any{"queries": obs, "sampled": sv, "label_values": lvImpl}
		c.Nontrivial = len(ents) >= 3 && in.Sampling >= 2 && maxLen >= 2
		c.Class = fmt.Sprintf("name/vals=%s/samp=%s", bucket(len(ents)), bucket(in.Sampling))
	case "names":
		impl, err := e.br.LabelNames()
		if err != nil {
			return c, err
		}
		full, err := e.ir.LabelNames(ctx)
		if err != nil {
			return c, err
		}
		var names []string
		for _, t := range e.all {
			names = append(names, t.Name)
		}
		if fmt.Sprintf("%q", impl) != fmt.Sprintf("%q", full) {
			c.GoPred = "LabelNames differ from the full index"
			c.Sig = "label-names-differ"
		}
		if lazyNames, err := e.lr.LabelNames(); (err != nil || fmt.Sprintf("%q", lazyNames) != fmt.Sprintf("%q", full)) && c.GoPred == "" {
			c.GoPred = "LazyBinaryReader.LabelNames differ from the full index"
			c.Sig = "lazy-reader-differs"
		}
		c.Coq = common.App("CNames", strList(names), strList(impl), strList(full))
		c.Obs = impl
		c.Nontrivial = len(impl) >= 2
	case "absent":
		_, inTable := e.table[in.Name]
		var ol int
		for _, q := range in.Queries {
			out, err := e.br.PostingsOffsets(in.Name, q...)
			if err != nil {
				return c, err
			}
			ol += len(out)
		}
		lv, err := e.br.LabelValues(in.Name)
		if err != nil {
			return c, err
		}
		for _, q := range in.Queries {
			out, err := e.lr.PostingsOffsets(in.Name, q...)
			if err != nil {
				return c, err
			}
			ol += len(out)
		}
		if lvl, err := e.lr.LabelValues(in.Name); err != nil || len(lvl) != len(lv) {
			c.GoPred, c.Sig = "LazyBinaryReader.LabelValues of an absent name differs", "lazy-reader-differs"
		}
		fullLV, _ := e.ir.LabelValues(ctx, in.Name, nil)
		if !inTable && (ol != 0 || len(lv) != 0 || len(fullLV) != 0) {
			c.GoPred = "absent label name has offsets or values"
			c.Sig = "absent-name"
		}
		c.Coq = common.App("CAbsent", common.Bool(inTable), common.Nat(ol), common.Nat(len(lv)))
		c.Obs = map[string]any{"in_table": inTable, "offsets": ol, "values": len(lv)}
		c.Nontrivial = !inTable && len(in.Queries) > 0
	case "symbols":
		var full, impl []string
		it := e.ir.Symbols()
		for it.Next() {
			full = append(full, it.At())
		}
		if it.Err() != nil {
			return c, it.Err()
		}
		// two passes: the second one is served from the reader's symbol caches
		for pass := 0; pass < 2; pass++ {
			impl = impl[:0]
			for i := range full {
				s, err := e.br.LookupSymbol(ctx, uint32(i))
				if err != nil {
					s = "\x00error"
				}
				impl = append(impl, s)
			}
			if fmt.Sprintf("%q", impl) != fmt.Sprintf("%q", full) {
				c.GoPred = fmt.Sprintf("LookupSymbol differs from the full index symbols (pass %d)", pass)
				c.Sig = "symbols-differ"
				break
			}
		}
		for i := range full {
			if s, err := e.lr.LookupSymbol(ctx, uint32(i)); (err != nil || s != full[i]) && c.GoPred == "" {
				c.GoPred, c.Sig = fmt.Sprintf("LazyBinaryReader.LookupSymbol(%d) differs from the full index", i), "lazy-reader-differs"
			}
		}
		if _, err := e.br.LookupSymbol(ctx, uint32(len(full))); err == nil && c.GoPred == "" {
			c.GoPred = "LookupSymbol of a reference past the last symbol succeeded"
			c.Sig = "symbol-past-end"
		}
		c.Coq = common.App("CSymbols", strList(impl), strList(full))
		c.Obs = len(impl)
		c.Nontrivial = len(full) >= 3
	case "symhist":
		var full []string
		it := e.ir.Symbols()
		for it.Next() {
			full = append(full, it.At())
		}
		if it.Err() != nil {
			return c, it.Err()
		}
		isName := map[string]bool{}
		for _, t := range e.all {
			isName[t.Name] = true
		}
		var names []string
		for i, s := range full {
			if isName[s] && s != "" {
				names = append(names, common.Z(int64(i)))
			}
		}
		optS := func(s string, ok bool) string {
			if !ok {
				return common.None
			}
			return common.Some(common.Bytes(s))
		}
		var hist []string
		type lk struct {
			Ref       uint32
			Want, Got string
		}
		var obs []lk
		collide := false
		seenSlot := map[uint32]uint32{}
		for _, o := range in.Lookups {
			got, err := e.br.LookupSymbol(ctx, o)
			want, okWant := "", int(o) < len(full)
			if okWant {
				want = full[o]
			}
			if ((err == nil) != okWant || (err == nil && got != want)) && c.GoPred == "" {
				c.GoPred = fmt.Sprintf("LookupSymbol(%d) = %q, %v; the full index has %q (in range: %v)", o, got, err, want, okWant)
				c.Sig = "symbol-history-differs"
			}
			if prev, ok := seenSlot[o%1024]; ok && prev != o {
				collide = true
			}
			seenSlot[o%1024] = o
			hist = append(hist, common.Tuple(common.Z(int64(o)), optS(want, okWant), optS(strings.Clone(got), err == nil)))
			if len(obs) < 8 {
				obs = append(obs, lk{o, strings.Clone(want), strings.Clone(got)})
			}
		}
		c.Coq = common.App("CSymHist", common.List(names), common.List(hist))
		c.Obs = obs
		c.Nontrivial = collide
		c.Class = fmt.Sprintf("symhist/symbols=%s/collisions=%v", bucket(len(full)/100), collide)
	default:
		return c, fmt.Errorf("bad kind %q", in.Kind)
	}
	return c, nil
}

func genSymHist(r *rand.Rand) input {
	in := input{Kind: "symhist", Sampling: common.Pick(r, 1, 3, 32), NValues: common.Pick(r, 2200, 2200, 2300, 1100, 40)}
	total := uint32(in.NValues + 3)
	n := 6 + r.Intn(30)
	for len(in.Lookups) < n {
		k := uint32(r.Intn(int(total)))
		switch r.Intn(5) {
		case 0: // the three references of one cache slot
			in.Lookups = append(in.Lookups, k%1024, k%1024+1024, k%1024+2048, k%1024)
		case 1: // repeated lookup: cache hit
			in.Lookups = append(in.Lookups, k, k)
		case 2:
			in.Lookups = append(in.Lookups, k, k+1024, k)
		case 3:
			in.Lookups = append(in.Lookups, total+uint32(r.Intn(3))) // past the end
		default:
			in.Lookups = append(in.Lookups, k)
		}
	}
	return in
}

func bucket(n int) string {
	switch {
	case n <= 1:
		return "1"
	case n <= 4:
		return "2-4"
	case n <= 16:
		return "5-16"
	case n <= 64:
		return "17-64"
	}
	return "65+"
}

const alphabet = "abcdxyz019-_"

func randValue(r *rand.Rand) string {
	n := 1 + r.Intn(4)
	if r.Intn(8) == 0 {
		n += r.Intn(12)
	}
	b := make([]byte, n)
	for i := range b {
		b[i] = alphabet[r.Intn(len(alphabet))]
	}
	return string(b)
}

func genOne(r *rand.Rand, tier string) input {
	var in input
	in.Sampling = common.Pick(r, 1, 1, 2, 2, 3, 3, 4, 5, 7, 8, 16, 31, 32, 33, 64)
	if r.Intn(4) == 0 {
		in.Sampling = 1 + r.Intn(64)
	}
	nameChoices := []string{"a", "b", "job", "instance", "__name__", "zone", "n1", "n22"}
	r.Shuffle(len(nameChoices), func(i, j int) { nameChoices[i], nameChoices[j] = nameChoices[j], nameChoices[i] })
	nNames := 1 + r.Intn(4)
	names := nameChoices[:nNames]
	counts := []int{1, 2, 3, 4, 5, 6, 8, 9, 17, 33}
	if tier == "thorough" {
		counts = append(counts, 64, 65, 129, 200)
	}
	vals := map[string][]string{}
	maxC := 0
	for _, n := range names {
		c := common.Pick(r, counts...)
		if r.Intn(3) == 0 {
			c = 1 + r.Intn(2*in.Sampling+3)
		}
		set := map[string]struct{}{}
		for len(set) < c {
			v := randValue(r)
			if r.Intn(3) == 0 && len(set) > 0 { // extensions of existing values: shared prefixes
				for k := range set {
					v = k + string(alphabet[r.Intn(len(alphabet))])
					break
				}
			}
			set[v] = struct{}{}
		}
		var l []string
		for v := range set {
			l = append(l, v)
		}
		sort.Strings(l)
		r.Shuffle(len(l), func(i, j int) { l[i], l[j] = l[j], l[i] })
		vals[n] = l
		if c > maxC {
			maxC = c
		}
	}
	// make the first name the one with the most values so that every series has a distinct label set
	sort.SliceStable(names, func(i, j int) bool { return len(vals[names[i]]) > len(vals[names[j]]) })
	for s := 0; s < maxC; s++ {
		var ls []string
		for _, n := range names {
			if s < len(vals[n]) {
				ls = append(ls, n, vals[n][s])
			}
		}
		in.Series = append(in.Series, ls)
	}
	switch k := r.Intn(20); {
	case k < 16:
		in.Kind = "name"
		in.Name = names[r.Intn(len(names))]
		if r.Intn(15) == 0 {
			in.Name = "" // all-postings key
		}
		present := append([]string{}, vals[in.Name]...)
		if in.Name == "" {
			present = []string{""}
		}
		sort.Strings(present)
		nq := 3 + r.Intn(6)
		for q := 0; q < nq; q++ {
			m := common.Pick(r, 1, 1, 2, 3, 4, 6, 10)
			if r.Intn(6) == 0 {
				m = len(present) + 2
			}
			if r.Intn(25) == 0 {
				m = 0
			}
			var vs []string
			for j := 0; j < m; j++ {
				switch r.Intn(10) {
				case 0, 1, 2, 3, 4:
					vs = append(vs, present[r.Intn(len(present))])
				case 5:
					vs = append(vs, present[r.Intn(len(present))]+string(alphabet[r.Intn(len(alphabet))]))
				case 6:
					p := present[r.Intn(len(present))]
					if len(p) > 0 {
						p = p[:len(p)-1]
					}
					vs = append(vs, p)
				case 7:
					vs = append(vs, randValue(r))
				case 8:
					vs = append(vs, common.Pick(r, "", "!", "-", "0"))
				default:
					vs = append(vs, common.Pick(r, "zzzz", "~", "zz", present[len(present)-1]+"~"))
				}
				if r.Intn(5) == 0 {
					vs = append(vs, vs[len(vs)-1])
				}
			}
			if r.Intn(8) == 0 { // every present value, in order
				vs = append([]string{}, present...)
			}
			sort.Strings(vs)
			if vs == nil {
				vs = []string{}
			}
			in.Queries = append(in.Queries, vs)
		}
	case k < 17:
		in.Kind = "names"
	case k < 18:
		in.Kind = "absent"
		in.Name = common.Pick(r, "nope", "aa", "zzz", "jo")
		in.Queries = [][]string{{"a"}, {"a", "b"}, {}}
	default:
		in.Kind = "symbols"
	}
	return in
}

func gen(r *rand.Rand, tier string, n int) []any {
	var out []any
	for i := 0; i < n; i++ {
		if i%25 == 3 {
			out = append(out, genSymHist(r))
			continue
		}
		out = append(out, genOne(r, tier))
	}
	return out
}

func main() {
	common.Main(common.Prop{ID: "C11", Facts: facts, Gen: gen, Run: run, QuickN: 500, ThoroughN: 6000,
		Preamble: "Open Scope Z_scope.\n"})
}
