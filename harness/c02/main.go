// C02: counter deduplication never fabricates counter resets.
package main

import (
	"encoding/json"
	"fmt"
	"io"
	"math"
	"math/rand"

	"github.com/prometheus/prometheus/model/labels"
	"github.com/prometheus/prometheus/storage"

	"github.com/thanos-io/thanos/pkg/dedup"
	"github.com/thanos-io/thanos/zzverif/common"
	du "github.com/thanos-io/thanos/zzverif/deduputil"
)

type input struct {
	F        string        `json:"f"` // rate | irate | increase | resets
	Replicas [][]du.Sample `json:"replicas"`
	Ops      []du.Op       `json:"ops"`
}

func facts(repo string, w io.Writer) error {
	if err := du.IterFacts(repo, w); err != nil {
		return err
	}
	return du.CounterFacts(repo, w)
}

func dedupSeries(reps [][]du.Sample, f string) (storage.Series, error) {
	lset := labels.FromStrings("__name__", "m_total", "job", "j")
	var ss []storage.Series
	for _, r := range reps {
		s, err := du.NewSeries(lset, r)
		if err != nil {
			return nil, err
		}
		ss = append(ss, s)
	}
	set := dedup.NewSeriesSet(du.SeriesSet(ss), f, dedup.AlgorithmPenalty)
	if !set.Next() {
		return nil, fmt.Errorf("dedup series set is empty")
	}
	return set.At(), nil
}

func zlist(xs []int64) string { return common.ZList(xs) }

func run(raw json.RawMessage) (common.Case, error) {
	var in input
	if err := json.Unmarshal(raw, &in); err != nil {
		return common.Case{}, err
	}
	var c common.Case
	if len(in.Replicas) < 1 || len(in.Replicas) > 6 {
		return c, fmt.Errorf("need 1..6 replicas")
	}
	switch in.F {
	case "rate", "irate", "increase", "resets":
	default:
		return c, fmt.Errorf("not a counter function: %q", in.F)
	}
	total, allInt, mono := 0, true, true
	for _, r := range in.Replicas {
		total += len(r)
		for i, s := range r {
			if !du.IsInt(s.V()) {
				allInt = false
			}
			if math.IsNaN(s.V()) {
				return c, fmt.Errorf("NaN values are not part of this property")
			}
			if i > 0 && s.V() < r[i-1].V() {
				mono = false
			}
		}
	}
	s, err := dedupSeries(in.Replicas, in.F)
	if err != nil {
		return c, err
	}
	full, ok := du.Drain(s.Iterator(nil), total+5)
	if !ok {
		c.GoPred, c.Sig = "draining the deduplicated series yields more samples than all replicas hold", "runaway"
	}
	done, obs := du.RunOps(s.Iterator(nil), in.Ops)
	c.Obs = map[string]any{"full": full, "reader": obs}
	c.Nontrivial = len(in.Replicas) >= 2 && len(full) >= 2
	kind := "int"
	if !allInt {
		kind = "float"
	}
	if !mono {
		kind += "-nonmonotone"
	}
	c.Class = fmt.Sprintf("%s-r%d", kind, len(in.Replicas))

	if allInt {
		c.Coq = common.App("CInt", du.CoqReplicas(in.Replicas), du.CoqOps(done), du.CoqObsSamples(full), du.CoqObsList(obs))
	} else {
		// order-preserving integer keys of the float values: the predicate
		// (never decreases) is decided exactly inside Coq on the keys
		var reps []string
		for _, r := range in.Replicas {
			ks := make([]int64, len(r))
			for i, sm := range r {
				ks[i] = du.FloatKey(sm.V())
			}
			reps = append(reps, zlist(ks))
		}
		fk := make([]int64, len(full))
		for i, o := range full {
			fk[i] = du.FloatKey(o.V)
		}
		var rk []string
		for _, o := range obs {
			if o.OK {
				rk = append(rk, common.Some(common.Z(du.FloatKey(o.V))))
			} else {
				rk = append(rk, common.None)
			}
		}
		c.Coq = common.App("CFloat", common.List(reps), zlist(fk), common.List(rk))
	}
	if c.GoPred != "" || !mono {
		return c, nil
	}
	for i := 1; i < len(full); i++ {
		if full[i].V < full[i-1].V {
			c.GoPred = fmt.Sprintf("deduplicated counter decreases from %v (t=%d) to %v (t=%d) although no replica ever decreases", full[i-1].V, full[i-1].T, full[i].V, full[i].T)
			c.Sig = "decrease-" + kind
			return c, nil
		}
	}
	last, have := 0.0, false
	for i, o := range obs {
		if !o.OK {
			continue
		}
		if have && o.V < last {
			c.GoPred = fmt.Sprintf("reader call #%d sees the counter decrease from %v to %v", i, last, o.V)
			c.Sig = "reader-decrease-" + kind
			return c, nil
		}
		last, have = o.V, true
	}
	return c, nil
}

func gen(r *rand.Rand, tier string, n int) []any {
	maxLen := 40
	if tier == "thorough" {
		maxLen = 120
	}
	var out []any
	for i := 0; i < n; i++ {
		reps := du.Layout(r, 4, maxLen, true)
		if len(reps) < 2 && r.Intn(4) > 0 {
			reps = append(reps, du.Layout(r, 1, maxLen, true)[0])
		}
		in := input{F: common.Pick(r, "rate", "rate", "irate", "increase", "resets"), Replicas: reps}
		switch k := r.Intn(20); {
		case k < 5: // float stream: non-integer monotone values
			scale := common.Pick(r, 0.1, 0.3, 1.0/3, 1e-3, 1e9+0.7, math.Pi)
			for _, rp := range in.Replicas {
				off := r.Float64() * 10
				for j := range rp {
					rp[j][1] = rp[j][1]*scale + off
				}
			}
		case k == 5: // a replica that does decrease (hypothesis not met; correspondence only)
			rp := in.Replicas[r.Intn(len(in.Replicas))]
			if len(rp) > 1 {
				j := 1 + r.Intn(len(rp)-1)
				rp[j][1] = rp[j-1][1] - float64(1+r.Intn(50))
			}
		}
		in.Ops = du.Program(r, in.Replicas)
		out = append(out, in)
	}
	return out
}

func main() {
	common.Main(common.Prop{ID: "C02", Facts: facts, Gen: gen, Run: run, QuickN: 500, ThoroughN: 2500,
		Preamble: "From Verif Require Import Lib.Dedup_Iter.\nOpen Scope Z_scope.\n"})
}
