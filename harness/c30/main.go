// C30: compaction planning is safe and converges.
package main

import (
	"bytes"
	"context"
	"encoding/json"
	"fmt"
	"go/ast"
	"go/parser"
	"io"
	"math/rand"
	"path"
	"sort"
	"strings"

	"github.com/go-kit/log"
	"github.com/oklog/ulid/v2"
	"github.com/prometheus/client_golang/prometheus"
	"github.com/prometheus/client_golang/prometheus/promauto"
	"github.com/prometheus/prometheus/tsdb"
	"github.com/thanos-io/objstore"

	"github.com/thanos-io/thanos/pkg/block"
	"github.com/thanos-io/thanos/pkg/block/metadata"
	"github.com/thanos-io/thanos/pkg/compact"
	"github.com/thanos-io/thanos/pkg/extprom"
	"github.com/thanos-io/thanos/zzverif/common"
	cu "github.com/thanos-io/thanos/zzverif/compactutil"
)

type blk struct {
	ID     int64 `json:"id"`
	MinT   int64 `json:"mint"`
	MaxT   int64 `json:"maxt"`
	Failed bool  `json:"failed,omitempty"`
	Tomb   int64 `json:"tomb,omitempty"`
	Series int64 `json:"series,omitempty"`
	ISize  int64 `json:"isize,omitempty"`
}

type input struct {
	Kind     string  `json:"kind"` // plan | iter | index
	Ranges   []int64 `json:"ranges"`
	Marks    []int64 `json:"marks"`
	Metas    []blk   `json:"metas"` // in the order handed to the planner
	TotalMax int64   `json:"total_max,omitempty"`
	// FaultMarks: after the healthy sync of the marker filter, one more sync is run during
	// which the Get of <ulid>/no-compact-mark.json of these blocks fails once (a transient
	// error).  A sync that reports the error is followed by a healthy one, as the compactor's
	// next iteration would do; then the planner runs.  The marks in the bucket never change.
	FaultMarks []int64 `json:"fault_marks,omitempty"`
}

// ---- tie T ---------------------------------------------------------------

func facts(repo string, w io.Writer) error {
	s, err := common.ParseSrc(repo, "pkg/compact/planner.go")
	if err != nil {
		return err
	}
	// splitByRange: if m.MinTime >= 0 { t0 = A } else { t0 = B }
	ift0, err := cu.TheIf(s, "splitByRange", "assigns t0 in both arms", func(is *ast.IfStmt) bool {
		_, ok := cu.AssignsOnly(is.Body, "t0")
		return ok
	})
	if err != nil {
		return err
	}
	eb, ok := ift0.Else.(*ast.BlockStmt)
	if !ok {
		return fmt.Errorf("srcfacts: splitByRange: the t0 computation has no plain else arm")
	}
	elseE, ok := cu.AssignsOnly(eb, "t0")
	if !ok || ift0.Init != nil {
		return fmt.Errorf("srcfacts: splitByRange: the else arm does not just assign t0")
	}
	thenE, _ := cu.AssignsOnly(ift0.Body, "t0")
	consts := map[string]string{"m.MinTime": "mint", "m.MaxTime": "maxt"}
	c, err := s.TranslateExpr(ift0.Cond, consts, nil)
	if err != nil {
		return err
	}
	a, err := s.TranslateExpr(thenE, consts, nil)
	if err != nil {
		return err
	}
	b, err := s.TranslateExpr(elseE, consts, nil)
	if err != nil {
		return err
	}
	fmt.Fprintln(w, "(* pkg/compact/planner.go splitByRange: start of the aligned window of size tr for a block starting at mint *)")
	fmt.Fprint(w, cu.Def("splitByRange_t0", []string{"mint", "tr"}, "Z", fmt.Sprintf("if %s then %s else %s", c, a, b)))

	// splitByRange: if m.MaxTime > t0+tr { i++; continue }
	ifskip, err := cu.TheIf(s, "splitByRange", "body is `i++; continue`", func(is *ast.IfStmt) bool {
		return cu.BodyKinds(is.Body) == "incdec;continue" && is.Else == nil
	})
	if err != nil {
		return err
	}
	c, err = s.TranslateExpr(ifskip.Cond, consts, nil)
	if err != nil {
		return err
	}
	fmt.Fprintln(w, "(* splitByRange: the block does not fit the window that starts at t0 *)")
	fmt.Fprint(w, cu.Def("splitByRange_skip", []string{"maxt", "t0", "tr"}, "bool", c))

	// splitByRange inner loop: if metasByMinTime[i].MaxTime > t0+tr { break }
	ifbreak, err := cu.TheIf(s, "splitByRange", "body is `break`", func(is *ast.IfStmt) bool {
		return cu.BodyKinds(is.Body) == "break" && is.Else == nil
	})
	if err != nil {
		return err
	}
	txt := strings.ReplaceAll(s.ExprString(ifbreak.Cond), "metasByMinTime[i]", "m")
	pe, err := parser.ParseExpr(txt)
	if err != nil {
		return fmt.Errorf("srcfacts: splitByRange break condition %q: %v", txt, err)
	}
	c, err = s.TranslateExpr(pe, consts, nil)
	if err != nil {
		return err
	}
	fmt.Fprintln(w, "(* splitByRange inner loop: the next block ends the group *)")
	fmt.Fprint(w, cu.Def("splitByRange_break", []string{"maxt", "t0", "tr"}, "bool", c))

	// selectMetas: if maxt-mint != iv && maxt > highTime { continue }
	ifhi, err := cu.TheIf(s, "selectMetas", "body is `continue`, mentions highTime", func(is *ast.IfStmt) bool {
		return cu.BodyKinds(is.Body) == "continue" && cu.Mentions(is.Cond, "highTime")
	})
	if err != nil {
		return err
	}
	c, err = s.TranslateExpr(ifhi.Cond, nil, nil)
	if err != nil {
		return err
	}
	fmt.Fprintln(w, "(* selectMetas: the part neither spans the whole range nor lies before the most recent block *)")
	fmt.Fprint(w, cu.Def("selectMetas_skip", []string{"mint", "maxt", "iv", "highTime"}, "bool", c))
	return nil
}

// ---- running the real planner --------------------------------------------

func mkULID(id int64) ulid.ULID {
	var u ulid.ULID
	if err := u.SetTime(uint64(id)); err != nil {
		panic(err)
	}
	return u
}

func idOf(u ulid.ULID) int64 { return int64(u.Time()) }

func mkMeta(b blk) *metadata.Meta {
	m := &metadata.Meta{}
	m.Version = 1
	m.ULID = mkULID(b.ID)
	m.MinTime, m.MaxTime = b.MinT, b.MaxT
	m.Compaction.Failed = b.Failed
	m.Compaction.Level = 1
	m.Compaction.Sources = []ulid.ULID{m.ULID}
	m.Stats = tsdb.BlockStats{NumTombstones: uint64(b.Tomb), NumSeries: uint64(b.Series)}
	if b.ISize > 0 {
		m.Thanos.Files = []metadata.File{{RelPath: block.IndexFilename, SizeBytes: b.ISize}}
	}
	return m
}

func coqMeta(b blk) string {
	return common.App("mk_meta", common.Z(b.ID), common.Z(b.MinT), common.Z(b.MaxT), common.Bool(b.Failed), common.Z(b.Tomb), common.Z(b.Series), common.Z(b.ISize))
}

func coqMetas(bs []blk) string {
	var xs []string
	for _, b := range bs {
		xs = append(xs, coqMeta(b))
	}
	return common.List(xs)
}

type env struct {
	bkt     *cu.RecBucket
	filter  *compact.GatherNoCompactionMarkFilter
	planner compact.Planner
	preOps  int
	base    interface {
		Plan(context.Context, []*metadata.Meta, chan error, any) ([]*metadata.Meta, error)
	}
}

// the real planner, with the no-compact marks read from a bucket by the real filter
func newEnv(in input) (*env, error) {
	ctx := context.Background()
	bkt := cu.NewRecBucket(objstore.NewInMemBucket())
	for _, id := range in.Marks {
		mk, _ := json.Marshal(metadata.NoCompactMark{ID: mkULID(id), Version: metadata.NoCompactMarkVersion1, Reason: metadata.ManualNoCompactReason})
		if err := bkt.Upload(ctx, path.Join(mkULID(id).String(), metadata.NoCompactMarkFilename), bytes.NewReader(mk)); err != nil {
			return nil, err
		}
	}
	f := compact.NewGatherNoCompactionMarkFilter(log.NewNopLogger(), objstore.WithNoopInstr(bkt), 2)
	e := &env{bkt: bkt, filter: f}
	if err := e.sync(in.Metas, in.Marks); err != nil {
		return nil, err
	}
	e.preOps = len(bkt.Ops())
	p := compact.NewPlanner(log.NewNopLogger(), in.Ranges, f)
	e.planner, e.base = p, p
	if in.Kind == "index" {
		e.planner = compact.WithLargeTotalIndexSizeFilter(p, bkt, in.TotalMax, promauto.With(nil).NewCounter(prometheus.CounterOpts{}))
	}
	return e, nil
}

// sync runs the real marker filter over every block id that may carry a mark
func (e *env) sync(metas []blk, marks []int64) error {
	mm := map[ulid.ULID]*metadata.Meta{}
	for _, b := range metas {
		mm[mkULID(b.ID)] = mkMeta(b)
	}
	for _, id := range marks {
		if _, ok := mm[mkULID(id)]; !ok {
			mm[mkULID(id)] = &metadata.Meta{}
		}
	}
	g := extprom.NewTxGaugeVec(nil, prometheus.GaugeOpts{}, []string{"state"})
	return e.filter.Filter(context.Background(), mm, g, g)
}

// plan returns the planned ids, or panicked=true
func (e *env) plan(metas []blk) (ids []int64, panicked bool, err error) {
	var ms []*metadata.Meta
	for _, b := range metas {
		ms = append(ms, mkMeta(b))
	}
	defer func() {
		if r := recover(); r != nil {
			ids, panicked, err = nil, true, nil
		}
	}()
	res, err := e.planner.Plan(context.Background(), ms, nil, nil)
	if err != nil {
		return nil, false, err
	}
	ids = []int64{}
	for _, m := range res {
		ids = append(ids, idOf(m.ULID))
	}
	return ids, false, nil
}

// applyPlan mirrors Model.C30.apply_plan (the harness plays the compactor: the
// planned blocks are replaced by one block spanning them)
func applyPlan(metas []blk, ids []int64, newid int64) []blk {
	in := map[int64]bool{}
	for _, i := range ids {
		in[i] = true
	}
	var planned, rest []blk
	for _, b := range metas {
		if in[b.ID] {
			planned = append(planned, b)
		} else {
			rest = append(rest, b)
		}
	}
	// the plan lists blocks in plan order; hull fields are order independent except isize/series sums
	h := blk{ID: newid, MinT: planned[0].MinT, MaxT: planned[0].MaxT}
	// the model folds over the plan in plan order with one block per planned id
	seen := map[int64]bool{}
	for _, i := range ids {
		if seen[i] {
			continue
		}
		for _, b := range planned {
			if b.ID == i {
				if b.MinT < h.MinT {
					h.MinT = b.MinT
				}
				if b.MaxT > h.MaxT {
					h.MaxT = b.MaxT
				}
				h.Series += b.Series
				h.ISize += b.ISize
				break
			}
		}
		seen[i] = true
	}
	var out []blk
	done := false
	for _, b := range rest {
		if !done && h.MinT < b.MinT {
			out = append(out, h)
			done = true
		}
		out = append(out, b)
	}
	if !done {
		out = append(out, h)
	}
	return out
}

func heavy(b blk) bool { return float64(b.Tomb)/float64(b.Series+1) > 0.05 }

func measure(metas []blk) int {
	n := 2 * len(metas)
	for _, b := range metas {
		if heavy(b) {
			n++
		}
	}
	return n
}

func idList(ids []int64) string { return common.ZList(ids) }

func optIDs(ids []int64, panicked bool) string {
	if panicked {
		return common.None
	}
	return common.Some(idList(ids))
}

func overlaps(metas []blk, marks []int64) bool {
	mk := map[int64]bool{}
	for _, i := range marks {
		mk[i] = true
	}
	var g int64
	first := true
	for _, b := range metas {
		if mk[b.ID] {
			continue
		}
		if !first && b.MinT < g {
			return true
		}
		if first || b.MaxT > g {
			g = b.MaxT
		}
		first = false
	}
	return false
}

func classify(in input, ids []int64, panicked bool) string {
	switch {
	case panicked:
		return in.Kind + "/panic"
	case len(ids) == 0:
		return in.Kind + "/empty"
	case overlaps(in.Metas, in.Marks):
		return in.Kind + "/overlap"
	case len(ids) == 1:
		return in.Kind + "/tombstone"
	}
	return in.Kind + "/range"
}

// Go-side evaluation of the property's cheap clauses (search aid only)
func goPred(in input, metas []blk, ids []int64, marks []int64) (string, string) {
	mk := map[int64]bool{}
	for _, i := range marks {
		mk[i] = true
	}
	by := map[int64]blk{}
	for _, b := range metas {
		by[b.ID] = b
	}
	for _, i := range ids {
		if _, ok := by[i]; !ok {
			return "plan names a block that is not in the group", "foreign-block"
		}
		if mk[i] {
			return "plan includes a block marked no-compact", "nocompact-planned"
		}
	}
	if len(ids) == 1 && !heavy(by[ids[0]]) {
		return "plan of a single block that is not tombstone-heavy", "single-block-plan"
	}
	if len(ids) > 0 && !overlaps(metas, marks) {
		last := metas[len(metas)-1]
		n := 0
		for _, b := range metas {
			if b.ID == last.ID {
				n++
			}
		}
		if n == 1 {
			for _, i := range ids {
				if i == last.ID {
					return "plan over non-overlapping blocks includes the newest block", "newest-planned"
				}
			}
		}
		if len(ids) >= 2 {
			fits := false
			for _, iv := range in.Ranges[1:] {
				if iv <= 0 {
					continue
				}
				lo, hi := by[ids[0]].MinT, by[ids[0]].MaxT
				for _, i := range ids {
					if by[i].MinT < lo {
						lo = by[i].MinT
					}
					if by[i].MaxT > hi {
						hi = by[i].MaxT
					}
				}
				t0 := floorDiv(by[ids[0]].MinT, iv) * iv
				if lo >= t0 && hi <= t0+iv {
					fits = true
				}
			}
			if !fits {
				return "plan over non-overlapping blocks does not fit one window of a configured range", "window-exceeded"
			}
		}
	}
	return "", ""
}

func floorDiv(a, b int64) int64 {
	q := a / b
	if (a%b != 0) && ((a < 0) != (b < 0)) {
		q--
	}
	return q
}

func run(raw json.RawMessage) (c common.Case, rerr error) {
	var in input
	if err := json.Unmarshal(raw, &in); err != nil {
		return common.Case{}, err
	}
	e, err := newEnv(in)
	if err != nil {
		return c, err
	}
	faultySyncFailed := true
	if len(in.FaultMarks) > 0 {
		failing := map[string]bool{}
		for _, id := range in.FaultMarks {
			failing[path.Join(mkULID(id).String(), metadata.NoCompactMarkFilename)] = true
		}
		e.bkt.FailName = func(kind, name string) bool {
			if kind == "get" && failing[name] {
				delete(failing, name) // once
				return true
			}
			return false
		}
		ferr := e.sync(in.Metas, in.Marks)
		e.bkt.FailName = nil
		faultySyncFailed = ferr != nil
		if ferr != nil {
			// the iteration is abandoned; the next one syncs again
			if err := e.sync(in.Metas, in.Marks); err != nil {
				return c, err
			}
		}
	}
	defer func() {
		if len(in.FaultMarks) > 0 {
			c.Class += fmt.Sprintf("/faulty-sync-reported=%v", faultySyncFailed)
		}
	}()
	switch in.Kind {
	case "plan":
		ids, panicked, err := e.plan(in.Metas)
		if err != nil {
			return c, err
		}
		c.Class = classify(in, ids, panicked)
		c.Obs = map[string]any{"plan": ids, "panic": panicked}
		c.Nontrivial = len(ids) > 0
		c.Coq = common.App("CPlan", common.ZList(in.Ranges), common.ZList(in.Marks), coqMetas(in.Metas), optIDs(ids, panicked))
		if panicked && len(in.Metas) > 0 && len(in.Ranges) > 0 {
			c.GoPred, c.Sig = "planner panicked on a non-empty group with configured ranges", "panic"
		} else if !panicked && len(in.Metas) > 0 && len(in.Ranges) > 0 {
			c.GoPred, c.Sig = goPred(in, in.Metas, ids, in.Marks)
		}
		return c, nil
	case "iter":
		metas := append([]blk{}, in.Metas...)
		newid := int64(1000)
		hist := [][]int64{}
		bound := measure(metas) + 5
		for step := 0; ; step++ {
			if step > bound {
				c.GoPred, c.Sig = "plan/apply did not reach a fixpoint within the measure bound", "no-convergence"
				break
			}
			ids, panicked, err := e.plan(metas)
			if err != nil {
				return c, err
			}
			if panicked {
				c.GoPred, c.Sig = "planner panicked during plan/apply iteration", "panic"
				break
			}
			if len(ids) == 0 {
				break
			}
			if gp, sig := goPred(in, metas, ids, in.Marks); gp != "" && c.GoPred == "" {
				c.GoPred, c.Sig = gp, sig
			}
			hist = append(hist, ids)
			metas = applyPlan(metas, ids, newid+int64(step))
		}
		var hs []string
		for _, h := range hist {
			hs = append(hs, idList(h))
		}
		c.Class = fmt.Sprintf("iter/steps=%d", min(len(hist), 6))
		c.Obs = map[string]any{"plans": hist}
		c.Nontrivial = len(hist) >= 2
		c.Coq = common.App("CIter", common.ZList(in.Ranges), common.ZList(in.Marks), coqMetas(in.Metas), common.Z(newid), common.List(hs))
		return c, nil
	case "index":
		ids, panicked, err := e.plan(in.Metas)
		if err != nil {
			return c, err
		}
		// marks the filter wrote into the bucket, in marking order
		newMarks := []int64{}
		for _, op := range e.bkt.Ops()[e.preOps:] {
			if op.Kind == "upload" && strings.HasSuffix(op.Name, "/"+metadata.NoCompactMarkFilename) {
				u, perr := ulid.Parse(strings.Split(op.Name, "/")[0])
				if perr != nil {
					return c, perr
				}
				newMarks = append(newMarks, idOf(u))
			}
		}
		lim := int64(float64(in.TotalMax) * 0.85)
		c.Class = classify(in, ids, panicked) + fmt.Sprintf("/marked=%d", min(len(newMarks), 4))
		c.Obs = map[string]any{"plan": ids, "panic": panicked, "new_marks": newMarks}
		c.Nontrivial = len(newMarks) > 0
		c.Coq = common.App("CIndex", common.ZList(in.Ranges), common.ZList(in.Marks), common.Z(lim), coqMetas(in.Metas), optIDs(ids, panicked), common.ZList(newMarks))
		if !panicked && len(in.Metas) > 0 && len(in.Ranges) > 0 {
			c.GoPred, c.Sig = goPred(in, in.Metas, ids, append(append([]int64{}, in.Marks...), newMarks...))
			var tot int64
			by := map[int64]blk{}
			for _, b := range in.Metas {
				by[b.ID] = b
			}
			for _, i := range ids {
				tot += by[i].ISize
			}
			if c.GoPred == "" && len(ids) > 0 && tot >= lim {
				c.GoPred, c.Sig = "planned blocks' total index size reaches the limit", "index-limit"
			}
		}
		return c, nil
	}
	return c, fmt.Errorf("bad kind %q", in.Kind)
}

// ---- generators ------------------------------------------------------------

func genMetas(r *rand.Rand, n int, ranges []int64, style int) []blk {
	base := ranges[0]
	if base <= 0 {
		base = 10
	}
	origin := common.Pick(r, int64(0), 0, 0, -7*base, -3*base-1, 1600000000000/base*base)
	var out []blk
	t := origin
	for i := 0; i < n; i++ {
		var b blk
		b.ID = int64(i + 1)
		switch style {
		case 0: // aligned, non-overlapping, mixed levels, gaps
			lvl := ranges[r.Intn(len(ranges))]
			if lvl <= 0 || r.Intn(3) > 0 {
				lvl = base
			}
			if r.Intn(4) == 0 {
				t += base * int64(r.Intn(4))
			}
			start := floorDiv(t, lvl) * lvl
			if start < t {
				start += lvl
			}
			b.MinT, b.MaxT = start, start+lvl
			if r.Intn(6) == 0 { // shorter block inside its window
				b.MaxT = start + 1 + r.Int63n(lvl)
			}
			t = b.MaxT
		case 1: // overlapping / replicated streams
			lvl := base * int64(1+r.Intn(3))
			b.MinT = t + r.Int63n(base+1) - base/2
			b.MaxT = b.MinT + 1 + r.Int63n(lvl)
			if r.Intn(3) > 0 {
				t = b.MaxT
			} else {
				t = b.MinT + r.Int63n(base+1)
			}
		default: // misaligned, arbitrary
			b.MinT = t + r.Int63n(2*base+1)
			b.MaxT = b.MinT + r.Int63n(3*base+1)
			t = b.MinT + r.Int63n(2*base+1)
		}
		if r.Intn(12) == 0 {
			b.Failed = true
		}
		b.Series = r.Int63n(200)
		if r.Intn(4) == 0 {
			b.Tomb = r.Int63n(30)
			if r.Intn(3) == 0 { // at the 5% boundary
				b.Tomb = (b.Series + 1) / 20
				if r.Intn(2) == 0 {
					b.Tomb++
				}
			}
		}
		b.ISize = 1 + r.Int63n(100)
		out = append(out, b)
	}
	sort.SliceStable(out, func(i, j int) bool { return out[i].MinT < out[j].MinT })
	return out
}

func genRanges(r *rand.Rand) []int64 {
	switch r.Intn(10) {
	case 0:
		return []int64{20}
	case 1:
		return []int64{10, 25, 70} // not multiples of each other
	case 2:
		return []int64{7200000, 28800000, 172800000, 1209600000}
	case 3:
		return []int64{20, 60}
	}
	return []int64{20, 60, 180, 540, 1620}[:2+r.Intn(4)]
}

func gen(r *rand.Rand, tier string, n int) []any {
	var out []any
	maxN := 12
	if tier == "thorough" {
		maxN = 40
	}
	for i := 0; i < n; i++ {
		in := input{Ranges: genRanges(r)}
		k := r.Intn(10)
		switch {
		case k < 5:
			in.Kind = "plan"
		case k < 8:
			in.Kind = "iter"
		default:
			in.Kind = "index"
		}
		nb := 1 + r.Intn(maxN)
		style := common.Pick(r, 0, 0, 0, 1, 2)
		in.Metas = genMetas(r, nb, in.Ranges, style)
		in.Marks = []int64{}
		if r.Intn(2) == 0 {
			for _, b := range in.Metas {
				if r.Intn(5) == 0 {
					in.Marks = append(in.Marks, b.ID)
				}
			}
			if r.Intn(4) == 0 {
				in.Marks = append(in.Marks, 999) // mark of a block not in the group
			}
		}
		if in.Kind == "index" {
			in.TotalMax = 20 + r.Int63n(600)
		}
		if len(in.Marks) > 0 && r.Intn(3) == 0 {
			for _, m := range in.Marks {
				if r.Intn(2) == 0 {
					in.FaultMarks = append(in.FaultMarks, m)
				}
			}
		}
		if in.Kind == "plan" && r.Intn(60) == 0 {
			in.Metas = []blk{} // outside the domain: observed panic must match the model's None
		}
		if in.Kind == "plan" && r.Intn(60) == 0 {
			in.Ranges = []int64{}
		}
		out = append(out, in)
	}
	return out
}

func main() {
	common.Main(common.Prop{ID: "C30", Facts: facts, Gen: gen, Run: run, QuickN: 700, ThoroughN: 8000,
		Preamble: "Open Scope Z_scope.\n"})
}
