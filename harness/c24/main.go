// C24: the remote-write concurrency gate is never exceeded, also when clients
// give up while queued at the gate and across reloads of the limits
// configuration (which install a fresh gate), and queued requests never crash
// the receiver.
package main

import (
	"bytes"
	"context"
	"encoding/json"
	"fmt"
	"go/ast"
	"io"
	"math/rand"
	"net/http"
	"net/http/httptest"
	"strings"
	"sync"
	"time"

	"github.com/go-kit/log"
	"github.com/gogo/protobuf/proto"
	"github.com/golang/snappy"

	"github.com/thanos-io/thanos/pkg/gate"
	"github.com/thanos-io/thanos/pkg/receive"
	"github.com/thanos-io/thanos/pkg/store/storepb/prompb"
	"github.com/thanos-io/thanos/pkg/tenancy"
	"github.com/thanos-io/thanos/zzverif/common"
)

// gateCall recognises `<receiver>.Start` / `<receiver>.Done` on the write gate,
// whatever expression denotes the gate (a local variable or a fresh lookup).
func gateCall(text string) (recv, method string, ok bool) {
	for _, m := range []string{"Start", "Done"} {
		if strings.HasSuffix(text, "."+m) {
			r := strings.TrimSuffix(text, "."+m)
			if strings.Contains(strings.ToLower(r), "writegate") {
				return r, m, true
			}
		}
	}
	return "", "", false
}

func facts(repo string, w io.Writer) error {
	for _, f := range [][3]string{
		{"pkg/receive/handler.go", "Handler.receiveHTTP", "receiveHTTP"},
		{"pkg/receive/handler_otlp.go", "Handler.receiveOTLPHTTP", "receiveOTLPHTTP"},
	} {
		s, err := common.ParseSrc(repo, f[0])
		if err != nil {
			return err
		}
		evs, err := s.CallOrder(f[1])
		if err != nil {
			return err
		}
		// canonical names for the gate calls + the expressions they are called on
		startRecv, doneRecv := "", ""
		for i, e := range evs {
			if e.Kind != "call" && e.Kind != "defer" {
				continue
			}
			if r, m, ok := gateCall(e.Text); ok {
				if m == "Start" && startRecv == "" {
					startRecv = r
				}
				if m == "Done" && doneRecv == "" {
					doneRecv = r
				}
				evs[i].Text = "writeGate." + m
			}
		}
		// keep the prefix up to the end of the gate protocol (the deferred Done
		// and the end of the `if err != nil` block that follows Start, whichever
		// comes last): edits further down the handler do not touch the fact.
		iStart, iIf, iEndif, iDefer := -1, -1, -1, -1
		depth := 0
		for i, e := range evs {
			switch {
			case iStart < 0:
				if e.Kind == "call" && e.Text == "writeGate.Start" {
					iStart = i
				}
			case e.Kind == "defer" && e.Text == "writeGate.Done" && iDefer < 0:
				iDefer = i
			case e.Kind == "if" && iIf < 0 && e.Text == "err != nil":
				iIf, depth = i, 1
			case e.Kind == "if" && iIf >= 0 && iEndif < 0:
				depth++
			case e.Kind == "endif" && iIf >= 0 && iEndif < 0:
				depth--
				if depth == 0 {
					iEndif = i
				}
			}
		}
		if iStart < 0 || iIf < 0 || iEndif < 0 || iDefer < 0 {
			return fmt.Errorf("%s: gate protocol not recognised (Start %d, if err != nil %d..%d, defer Done %d)", f[1], iStart, iIf, iEndif, iDefer)
		}
		cut := iEndif + 1
		if iDefer+1 > cut {
			cut = iDefer + 1
		}
		fmt.Fprintf(w, "(* %s %s: call/defer/if/return events in source order, up to the end of the gate protocol (gate calls under canonical names) *)\n%s\n",
			f[0], f[1], common.EventsCoq(f[2]+"_events", evs[:cut]))
		// how many times the expression Start/Done are called on is bound in the function
		fd, err := s.FindFunc(f[1])
		if err != nil {
			return err
		}
		bindings := 0
		ast.Inspect(fd.Body, func(n ast.Node) bool {
			if as, ok := n.(*ast.AssignStmt); ok {
				for _, l := range as.Lhs {
					if id, ok := l.(*ast.Ident); ok && id.Name == startRecv {
						bindings++
					}
				}
			}
			return true
		})
		fmt.Fprintf(w, "(* %s: the expressions Start and the deferred Done are called on, and the number of assignments to the former *)\n", f[1])
		fmt.Fprintf(w, "Definition %s_start_receiver : string := %s%%string.\nDefinition %s_done_receiver : string := %s%%string.\nDefinition %s_gate_bindings : Z := %d.\n\n",
			f[2], common.CoqString(startRecv), f[2], common.CoqString(doneRecv), f[2], bindings)
	}
	return nil
}

type op struct {
	Op  string `json:"op"`            // arrive | arrive_dead | cancel | cancel_newest | finish | abort | reload
	EP  string `json:"ep,omitempty"`  // http | otlp (arrive)
	Max int    `json:"max,omitempty"` // reload: max_concurrency of the reloaded configuration
}

type input struct {
	Max int  `json:"max"`
	Ops []op `json:"ops"`
}

const (
	phNew = iota
	phWaiting
	phAdmitted
	phWorking
	phReleased
	phStartFailed
	phCancelling
	phDone
)

type reqState struct {
	id          int
	ep          string
	gate        int // generation of the gate whose Start this request entered
	cancel      context.CancelFunc
	release     chan struct{}
	abort       chan struct{}
	phase       int
	startFailed bool
	dead        bool // arrived with an already cancelled context: cannot stay queued
	status      int
	panicVal    any
}

type ctxKey struct{}

type rig struct {
	mu    sync.Mutex
	cond  *sync.Cond
	gates []*gateRec
	reqs  []*reqState
}

// gateRec wraps one gate installed in the limiter (the initial one or one
// installed by a configuration reload) and records what happens on it.
type gateRec struct {
	g      *rig
	id     int
	max    int
	tokens int
	inner  gate.Gate
}

func (gr *gateRec) Start(ctx context.Context) error {
	g := gr.g
	r, _ := ctx.Value(ctxKey{}).(*reqState)
	g.mu.Lock()
	if r != nil {
		r.phase = phWaiting
		r.gate = gr.id
	}
	g.cond.Broadcast()
	g.mu.Unlock()
	err := gr.inner.Start(ctx)
	g.mu.Lock()
	if err == nil {
		gr.tokens++
		if r != nil {
			r.phase = phAdmitted
		}
	} else if r != nil {
		r.phase = phStartFailed
		r.startFailed = true
	}
	g.cond.Broadcast()
	g.mu.Unlock()
	return err
}

func (gr *gateRec) Done() {
	g := gr.g
	g.mu.Lock()
	gr.tokens--
	g.cond.Broadcast()
	g.mu.Unlock()
	defer func() {
		if p := recover(); p != nil {
			g.mu.Lock()
			gr.tokens++ // nothing was taken out of the gate
			g.cond.Broadcast()
			g.mu.Unlock()
			panic(p)
		}
	}()
	gr.inner.Done()
}

type blockBody struct {
	g    *rig
	r    *reqState
	data *bytes.Reader
	once sync.Once

	aborted bool
}

func (b *blockBody) Read(p []byte) (int, error) {
	b.once.Do(func() {
		b.g.mu.Lock()
		b.r.phase = phWorking
		b.g.cond.Broadcast()
		b.g.mu.Unlock()
		select {
		case <-b.r.release:
		case <-b.r.abort:
			b.aborted = true
		}
	})
	if b.aborted {
		return 0, context.Canceled // the client went away while the body was being read
	}
	return b.data.Read(p)
}
func (b *blockBody) Close() error { return nil }

func (g *rig) quiescent() bool {
	for _, r := range g.reqs {
		switch r.phase {
		case phWaiting:
			if r.dead {
				return false // Start is about to return (admitted or ctx.Err)
			}
			gr := g.gates[r.gate]
			if gr.tokens < gr.max {
				return false // its gate has room: it is about to be admitted
			}
		case phWorking, phDone:
		default:
			return false
		}
	}
	return true
}

func (g *rig) waitQuiescent() error {
	deadline := time.Now().Add(20 * time.Second)
	stop := make(chan struct{})
	defer close(stop)
	go func() {
		t := time.NewTicker(25 * time.Millisecond)
		defer t.Stop()
		for {
			select {
			case <-stop:
				return
			case <-t.C:
				g.mu.Lock()
				g.cond.Broadcast()
				g.mu.Unlock()
			}
		}
	}()
	g.mu.Lock()
	defer g.mu.Unlock()
	for !g.quiescent() {
		if time.Now().After(deadline) {
			return fmt.Errorf("no quiescent state within 20s")
		}
		g.cond.Wait()
	}
	return nil
}

type gateSnap struct {
	Max, Working, Waiting int
}
type snap struct {
	Gates                       []gateSnap
	Finished, Cancelled, Panics int
}

func (g *rig) snapshot() snap {
	g.mu.Lock()
	defer g.mu.Unlock()
	s := snap{Gates: make([]gateSnap, len(g.gates))}
	for i, gr := range g.gates {
		s.Gates[i].Max = gr.max
	}
	for _, r := range g.reqs {
		switch {
		case r.phase == phWorking:
			s.Gates[r.gate].Working++
		case r.phase == phWaiting:
			s.Gates[r.gate].Waiting++
		case r.phase == phDone && r.panicVal != nil:
			s.Panics++
		case r.phase == phDone && r.startFailed:
			s.Cancelled++
		case r.phase == phDone:
			s.Finished++
		}
	}
	return s
}

// limitsFile is the limits configuration the limiter (re)loads.
type limitsFile struct {
	mu  sync.Mutex
	max int
}

func (l *limitsFile) Content() ([]byte, error) {
	l.mu.Lock()
	defer l.mu.Unlock()
	return []byte(fmt.Sprintf("write:\n  global:\n    max_concurrency: %d\n", l.max)), nil
}
func (l *limitsFile) Path() string { return "limits.yaml" }

func run(raw json.RawMessage) (common.Case, error) {
	var in input
	if err := json.Unmarshal(raw, &in); err != nil {
		return common.Case{}, err
	}
	if in.Max < 1 {
		return common.Case{}, fmt.Errorf("max must be >= 1")
	}
	cfg := &limitsFile{max: in.Max}
	limiter, err := receive.NewLimiter(cfg, nil, receive.RouterIngestor, log.NewNopLogger(), time.Second)
	if err != nil {
		return common.Case{}, err
	}
	g := &rig{}
	g.cond = sync.NewCond(&g.mu)
	// wrap the gate the limiter has just installed (initially and after every
	// reload) with a recorder; between a (re)load and the wrapping no request
	// runs: all of them are parked in a gate or in their request body
	wrap := func(max int) {
		gr := &gateRec{g: g, id: len(g.gates), max: max, inner: limiter.WriteGate()}
		g.mu.Lock()
		g.gates = append(g.gates, gr)
		g.mu.Unlock()
		receive.VerifSetWriteGate(limiter, gr)
	}
	wrap(in.Max)
	h := receive.NewHandler(log.NewNopLogger(), &receive.Options{
		TenantHeader:      tenancy.DefaultTenantHeader,
		ReplicaHeader:     receive.DefaultReplicaHeader,
		ReplicationFactor: 1,
		ForwardTimeout:    time.Minute,
		Limiter:           limiter,
		ReceiverMode:      receive.RouterIngestor,
	})
	emptyV1, _ := proto.Marshal(&prompb.WriteRequest{})
	emptyV1 = snappy.Encode(nil, emptyV1)

	arrive := func(ep string, dead bool) *reqState {
		ctx, cancel := context.WithCancel(context.Background())
		if dead {
			cancel() // the client is already gone when the request reaches the gate
		}
		r := &reqState{id: len(g.reqs), ep: ep, cancel: cancel, release: make(chan struct{}), abort: make(chan struct{}), dead: dead}
		ctx = context.WithValue(ctx, ctxKey{}, r)
		g.mu.Lock()
		g.reqs = append(g.reqs, r)
		g.mu.Unlock()
		var body *blockBody
		var req *http.Request
		if ep == "otlp" {
			body = &blockBody{g: g, r: r, data: bytes.NewReader(nil)}
			req, _ = http.NewRequestWithContext(ctx, "POST", "http://receive/api/v1/otlp", body)
			req.Header.Set("Content-Type", "application/x-protobuf")
		} else {
			body = &blockBody{g: g, r: r, data: bytes.NewReader(emptyV1)}
			req, _ = http.NewRequestWithContext(ctx, "POST", "http://receive/api/v1/receive", body)
		}
		req.ContentLength = -1
		req.Header.Set(tenancy.DefaultTenantHeader, "t1")
		go func() {
			rec := httptest.NewRecorder()
			defer func() {
				p := recover()
				g.mu.Lock()
				r.panicVal = p
				r.status = rec.Code
				r.phase = phDone
				g.cond.Broadcast()
				g.mu.Unlock()
			}()
			if ep == "otlp" {
				h.VerifC24ReceiveOTLPHTTP(rec, req)
			} else {
				h.VerifC24ReceiveHTTP(rec, req)
			}
		}()
		return r
	}
	oldest := func(phase int) *reqState {
		g.mu.Lock()
		defer g.mu.Unlock()
		for _, r := range g.reqs {
			if r.phase == phase {
				return r
			}
		}
		return nil
	}
	newest := func(phase int) *reqState {
		g.mu.Lock()
		defer g.mu.Unlock()
		for i := len(g.reqs) - 1; i >= 0; i-- {
			if g.reqs[i].phase == phase {
				return g.reqs[i]
			}
		}
		return nil
	}
	epCoq := func(ep string) string {
		if ep == "otlp" {
			return "Otlp"
		}
		return "Http"
	}
	cleanup := func() {
		for i := 0; i < 10000; i++ {
			if r := oldest(phWorking); r != nil {
				g.mu.Lock()
				r.phase = phReleased
				g.mu.Unlock()
				close(r.release)
			} else if r := oldest(phWaiting); r != nil {
				g.mu.Lock()
				r.phase = phCancelling
				g.mu.Unlock()
				r.cancel()
			} else {
				g.mu.Lock()
				all := true
				for _, r := range g.reqs {
					all = all && r.phase == phDone
				}
				g.mu.Unlock()
				if all {
					return
				}
				time.Sleep(time.Millisecond)
			}
			_ = g.waitQuiescent()
		}
	}
	defer cleanup()

	var c common.Case
	var steps []string
	var obs []any
	reachedCap, gateEvents, reloads := false, 0, 0
	for _, o := range in.Ops {
		var resolved string
		switch o.Op {
		case "arrive":
			arrive(o.EP, false)
			resolved = common.App("OArrive", epCoq(o.EP))
		case "arrive_dead":
			// Start may pick either ready case of its select when the gate has
			// room: what happened is observed after quiescence
			r := arrive(o.EP, true)
			if err := g.waitQuiescent(); err != nil {
				return c, err
			}
			g.mu.Lock()
			failed := r.startFailed
			g.mu.Unlock()
			if failed {
				resolved = common.App("OArriveDead", epCoq(o.EP))
				gateEvents++
			} else {
				resolved = common.App("OArrive", epCoq(o.EP))
			}
		case "cancel", "cancel_newest":
			pick := oldest
			if o.Op == "cancel_newest" {
				pick = newest
			}
			if r := pick(phWaiting); r != nil {
				g.mu.Lock()
				r.phase = phCancelling // transient until Start returns
				gi := r.gate
				g.mu.Unlock()
				r.cancel()
				resolved = common.App("OCancel", epCoq(r.ep), common.Nat(gi))
				gateEvents++
			} else {
				resolved = "OCancelNone"
			}
		case "finish", "abort":
			if r := oldest(phWorking); r != nil {
				g.mu.Lock()
				r.phase = phReleased
				gi := r.gate
				g.mu.Unlock()
				if o.Op == "abort" {
					// the client gives up while its request is inside the write path
					r.cancel()
					close(r.abort)
				} else {
					close(r.release)
				}
				resolved = common.App("OFinish", epCoq(r.ep), common.Nat(gi))
			} else {
				resolved = "OFinishNone"
			}
		case "reload":
			if o.Max < 1 {
				return c, fmt.Errorf("reload needs max >= 1")
			}
			cfg.mu.Lock()
			cfg.max = o.Max
			cfg.mu.Unlock()
			if err := receive.VerifReloadLimits(limiter); err != nil {
				return c, err
			}
			wrap(o.Max)
			resolved = common.App("OReload", common.Nat(o.Max))
			reloads++
		default:
			return c, fmt.Errorf("bad op %q", o.Op)
		}
		if err := g.waitQuiescent(); err != nil {
			return c, err
		}
		s := g.snapshot()
		var gs []string
		for i, x := range s.Gates {
			gs = append(gs, common.Tuple(common.Nat(x.Max), common.Nat(x.Working), common.Nat(x.Waiting)))
			if x.Working >= x.Max {
				reachedCap = true
			}
			if x.Working > x.Max && c.GoPred == "" {
				c.GoPred = fmt.Sprintf("%d requests admitted by gate #%d are inside the write path, its max concurrency is %d", x.Working, i, x.Max)
				c.Sig = "over-admission"
			}
		}
		steps = append(steps, common.Pair(resolved, common.Tuple(common.List(gs), common.Nat(s.Finished), common.Nat(s.Cancelled), common.Nat(s.Panics))))
		obs = append(obs, map[string]any{"op": o, "state": s})
		if s.Panics > 0 && c.GoPred == "" {
			c.GoPred = "a request panicked in gate.Done (more operations done than started)"
			c.Sig = "gate-done-panic"
		}
	}
	c.Coq = common.App("CGate", common.Nat(in.Max), common.List(steps))
	c.Obs = obs
	c.Class = fmt.Sprintf("max%d", in.Max)
	if gateEvents > 0 {
		c.Class += "/cancel-while-queued"
	}
	if reloads > 0 {
		c.Class += "/reload"
	}
	c.Nontrivial = (gateEvents > 0 || reloads > 0) && reachedCap
	return c, nil
}

func gen(r *rand.Rand, tier string, n int) []any {
	var out []any
	maxOps := 24
	if tier == "thorough" {
		maxOps = 60
	}
	for i := 0; i < n; i++ {
		in := input{Max: 1 + r.Intn(3)}
		k := 4 + r.Intn(maxOps-3)
		pa := 35 + r.Intn(30) // arrival pressure differs per case
		preload := 0          // per-case probability (%) of a configuration reload per step
		if r.Intn(2) == 0 {
			preload = 5 + r.Intn(15)
		}
		for j := 0; j < k; j++ {
			if r.Intn(100) < preload {
				m := in.Max // mostly an unchanged configuration (a reload installs a fresh gate anyway)
				if r.Intn(3) == 0 {
					m = 1 + r.Intn(3)
				}
				in.Ops = append(in.Ops, op{Op: "reload", Max: m})
				continue
			}
			switch x := r.Intn(100); {
			case x < pa:
				o := op{Op: "arrive", EP: common.Pick(r, "http", "http", "otlp")}
				if r.Intn(8) == 0 {
					o.Op = "arrive_dead"
				}
				in.Ops = append(in.Ops, o)
			case x < pa+(100-pa)/2:
				in.Ops = append(in.Ops, op{Op: common.Pick(r, "cancel", "cancel", "cancel_newest")})
			default:
				in.Ops = append(in.Ops, op{Op: common.Pick(r, "finish", "finish", "finish", "abort")})
			}
		}
		out = append(out, in)
	}
	return out
}

func main() {
	common.Main(common.Prop{ID: "C24", Facts: facts, Gen: gen, Run: run, QuickN: 300, ThoroughN: 3000})
}
