// C34: compactor and store-gateway delays keep data queryable (protocol model).
// The harness ties the model's gateway-sync transition to the real filter chain
// and regenerates the constants of the protocol from the sources.
package main

import (
	"bytes"
	"context"
	"encoding/json"
	"fmt"
	"go/ast"
	"go/token"
	"io"
	"math/big"
	"math/rand"
	"path"
	"sort"
	"strconv"
	"time"

	"github.com/go-kit/log"
	"github.com/oklog/ulid/v2"
	"github.com/prometheus/common/model"
	"github.com/thanos-io/objstore"

	"github.com/thanos-io/thanos/pkg/block"
	"github.com/thanos-io/thanos/pkg/block/metadata"
	"github.com/thanos-io/thanos/zzverif/common"
)

type blk struct {
	T       uint64 `json:"t"`
	E       uint16 `json:"e"`
	Sources []int  `json:"sources"`
	// deletion mark age in seconds at the time of the sync; nil = not marked
	MarkAge *int64 `json:"mark_age,omitempty"`
}

type input struct {
	DelayS int64 `json:"delay_s"`
	Blocks []blk `json:"blocks"`
}

// ---- tie T -------------------------------------------------------------------------

func flagDefault(s *common.SrcFile, flag string) (string, error) {
	var out string
	n := 0
	ast.Inspect(s.File, func(x ast.Node) bool {
		ce, ok := x.(*ast.CallExpr)
		if !ok {
			return true
		}
		se, ok := ce.Fun.(*ast.SelectorExpr)
		if !ok || se.Sel.Name != "Default" || len(ce.Args) != 1 {
			return true
		}
		// walk down the receiver chain to the .Flag("name", ...) call
		for r := se.X; ; {
			rc, ok := r.(*ast.CallExpr)
			if !ok {
				break
			}
			rs, ok := rc.Fun.(*ast.SelectorExpr)
			if !ok {
				break
			}
			if rs.Sel.Name == "Flag" && len(rc.Args) >= 1 {
				if lit, ok := rc.Args[0].(*ast.BasicLit); ok && lit.Kind == token.STRING {
					if name, _ := strconv.Unquote(lit.Value); name == flag {
						if dl, ok := ce.Args[0].(*ast.BasicLit); ok && dl.Kind == token.STRING {
							out, _ = strconv.Unquote(dl.Value)
							n++
						}
					}
				}
				break
			}
			r = rs.X
		}
		return true
	})
	if n != 1 {
		return "", fmt.Errorf("srcfacts: %s: expected one Default(...) for flag %q, found %d", s.Path, flag, n)
	}
	return out, nil
}

func seconds(d string) (int64, error) {
	v, err := model.ParseDuration(d)
	if err != nil {
		return 0, err
	}
	return int64(time.Duration(v) / time.Second), nil
}

// position of the first element of the []block.MetadataFilter{...} literal in fn whose text contains what
func filterPos(s *common.SrcFile, fn string, whats ...string) ([]int, error) {
	fd, err := s.FindFunc(fn)
	if err != nil {
		return nil, err
	}
	pos := make([]int, len(whats))
	for i := range pos {
		pos[i] = -1
	}
	found := 0
	ast.Inspect(fd.Body, func(x ast.Node) bool {
		cl, ok := x.(*ast.CompositeLit)
		if !ok || s.ExprString(cl.Type) != "[]block.MetadataFilter" {
			return true
		}
		hit := false
		p := make([]int, len(whats))
		for i := range p {
			p[i] = -1
		}
		for j, el := range cl.Elts {
			txt := s.ExprString(el)
			for i, w := range whats {
				if p[i] < 0 && len(txt) >= len(w) && txt[:len(w)] == w {
					p[i] = j
					hit = true
				}
			}
		}
		if hit && found == 0 {
			copy(pos, p)
			found++
		}
		return true
	})
	return pos, nil
}

func facts(repo string, w io.Writer) error {
	cs, err := common.ParseSrc(repo, "cmd/thanos/compact.go")
	if err != nil {
		return err
	}
	ss, err := common.ParseSrc(repo, "cmd/thanos/store.go")
	if err != nil {
		return err
	}
	for _, f := range []struct {
		s          *common.SrcFile
		flag, name string
	}{
		{cs, "delete-delay", "compact_delete_delay_default"},
		{ss, "ignore-deletion-marks-delay", "store_ignore_deletion_marks_delay_default"},
		{ss, "sync-block-duration", "store_sync_block_duration_default"},
	} {
		d, err := flagDefault(f.s, f.flag)
		if err != nil {
			return err
		}
		sec, err := seconds(d)
		if err != nil {
			return err
		}
		fmt.Fprintf(w, "(* %s: flag --%s Default(%q), in seconds *)\nDefinition %s : Z := %d.\n", f.s.Path, f.flag, d, f.name, sec)
	}
	// block.NewIgnoreDeletionMarkFilter(logger, insBkt, deleteDelay/2, ...) in runCompact
	fd, err := cs.FindFunc("runCompact")
	if err != nil {
		return err
	}
	var arg ast.Expr
	n := 0
	ast.Inspect(fd.Body, func(x ast.Node) bool {
		if ce, ok := x.(*ast.CallExpr); ok && cs.ExprString(ce.Fun) == "block.NewIgnoreDeletionMarkFilter" && len(ce.Args) >= 3 {
			arg = ce.Args[2]
			n++
		}
		return true
	})
	if n != 1 {
		return fmt.Errorf("srcfacts: cmd/thanos/compact.go: expected one block.NewIgnoreDeletionMarkFilter call in runCompact, found %d", n)
	}
	e, err := cs.TranslateExpr(arg, nil, nil)
	if err != nil {
		return err
	}
	fmt.Fprintf(w, "(* cmd/thanos/compact.go: delay of the compactor's own IgnoreDeletionMarkFilter *)\nDefinition compact_ignore_delay_expr (deleteDelay : Z) : Z :=\n  %s.\n", e)
	p, err := filterPos(ss, "runStore", "ignoreDeletionMarkFilter", "block.NewDeduplicateFilter")
	if err != nil {
		return err
	}
	fmt.Fprintf(w, "(* cmd/thanos/store.go: in the gateway's filter chain the deletion-mark filter runs before the duplicate filter *)\nDefinition store_marks_filter_before_dedup : bool := %v.\n", p[0] >= 0 && p[1] >= 0 && p[0] < p[1])
	p, err = filterPos(cs, "runCompact", "ignoreDeletionMarkFilter", "duplicateBlocksFilter")
	if err != nil {
		return err
	}
	fmt.Fprintf(w, "(* cmd/thanos/compact.go: same order in the compactor's chain *)\nDefinition compact_marks_filter_before_dedup : bool := %v.\n", p[0] >= 0 && p[1] >= 0 && p[0] < p[1])
	return nil
}

// ---- tie C: one gateway sync through the real filter chain ---------------------------

func mkULID(t uint64, e uint16) ulid.ULID {
	var u ulid.ULID
	_ = u.SetTime(t)
	u[14], u[15] = byte(e>>8), byte(e)
	return u
}

func zOf(u ulid.ULID) string { return new(big.Int).SetBytes(u[:]).String() + "%Z" }

func run(raw json.RawMessage) (common.Case, error) {
	var in input
	if err := json.Unmarshal(raw, &in); err != nil {
		return common.Case{}, err
	}
	var c common.Case
	ctx := context.Background()
	bkt := objstore.NewInMemBucket()
	now := time.Now().Unix()
	src := func(i int) ulid.ULID { return mkULID(uint64(1+i), 0) }
	var bs []string
	marked, hiddenByMark := 0, 0
	for _, b := range in.Blocks {
		id := mkULID(b.T, b.E)
		m := metadata.Meta{}
		m.Version = 1
		m.ULID = id
		m.MaxTime = 1000
		m.Thanos.Labels = map[string]string{"cluster": "a"}
		var ss []string
		for _, s := range b.Sources {
			m.Compaction.Sources = append(m.Compaction.Sources, src(s))
			ss = append(ss, zOf(src(s)))
		}
		mj, _ := json.Marshal(m)
		if err := bkt.Upload(ctx, path.Join(id.String(), block.MetaFilename), bytes.NewReader(mj)); err != nil {
			return c, err
		}
		mk := common.None
		if b.MarkAge != nil {
			marked++
			if d := *b.MarkAge - in.DelayS; d > -10 && d < 10 {
				return c, fmt.Errorf("mark age within 10 s of the delay: not decidable against the wall clock")
			}
			if *b.MarkAge > in.DelayS {
				hiddenByMark++
			}
			dm, _ := json.Marshal(metadata.DeletionMark{ID: id, Version: 1, DeletionTime: now - *b.MarkAge})
			if err := bkt.Upload(ctx, path.Join(id.String(), metadata.DeletionMarkFilename), bytes.NewReader(dm)); err != nil {
				return c, err
			}
			mk = common.Some(common.Z(now - *b.MarkAge))
		}
		bs = append(bs, common.App("mk_mblk", common.App("mk_b", zOf(id), common.Z(0), common.List(ss)), mk))
	}
	ins := objstore.WithNoopInstr(bkt)
	logger := log.NewNopLogger()
	// the store gateway's chain (cmd/thanos/store.go), as far as this property goes
	f, err := block.NewMetaFetcher(logger, 4, ins, block.NewRecursiveLister(logger, ins), "", nil, []block.MetadataFilter{
		block.NewIgnoreDeletionMarkFilter(logger, ins, time.Duration(in.DelayS)*time.Second, 4),
		block.NewDeduplicateFilter(4),
	})
	if err != nil {
		return c, err
	}
	metas, _, err := f.Fetch(ctx)
	if err != nil {
		return c, err
	}
	var kept []ulid.ULID
	for id := range metas {
		kept = append(kept, id)
	}
	sort.Slice(kept, func(i, j int) bool { return kept[i].Compare(kept[j]) < 0 })
	var ks, kobs []string
	for _, u := range kept {
		ks = append(ks, zOf(u))
		kobs = append(kobs, u.String())
	}
	c.Obs = map[string]any{"kept": kobs, "blocks": len(in.Blocks), "marked": marked, "hidden_by_mark": hiddenByMark}
	c.Class = fmt.Sprintf("marked=%d/hidden=%d/dedup=%d", min(marked, 3), min(hiddenByMark, 3), min(len(in.Blocks)-hiddenByMark-len(kept), 3))
	c.Nontrivial = hiddenByMark > 0 && len(in.Blocks)-hiddenByMark-len(kept) > 0
	c.Coq = common.App("CSyncView", common.Z(now), common.Z(in.DelayS), common.List(bs), common.List(ks))
	return c, nil
}

func gen(r *rand.Rand, tier string, n int) []any {
	var out []any
	maxB := 10
	if tier == "thorough" {
		maxB = 30
	}
	for i := 0; i < n; i++ {
		in := input{DelayS: common.Pick(r, int64(0), 3600, 86400, 172800)}
		nb := r.Intn(maxB + 1)
		nsrc := 2 + r.Intn(6)
		used := map[[2]uint64]bool{}
		for len(in.Blocks) < nb {
			b := blk{T: uint64(1000 + r.Intn(30)), E: uint16(r.Intn(3))}
			if used[[2]uint64{b.T, uint64(b.E)}] {
				continue
			}
			used[[2]uint64{b.T, uint64(b.E)}] = true
			a := r.Intn(nsrc)
			z := a + 1 + r.Intn(nsrc-a)
			for s := a; s < z; s++ {
				b.Sources = append(b.Sources, s)
			}
			if r.Intn(2) == 0 {
				// marks well away from the boundary (the real filter reads the wall clock)
				age := common.Pick(r, int64(0), 60, in.DelayS/2, in.DelayS-30, in.DelayS+30, 2*in.DelayS+100, 400000)
				if d := age - in.DelayS; d > -10 && d < 10 {
					age = in.DelayS + 30
				}
				if age < 0 {
					age = 0
				}
				if d := age - in.DelayS; d > -10 && d < 10 {
					age = in.DelayS + 30
				}
				b.MarkAge = &age
			}
			in.Blocks = append(in.Blocks, b)
		}
		if in.Blocks == nil {
			in.Blocks = []blk{}
		}
		out = append(out, in)
	}
	return out
}

func main() {
	common.Main(common.Prop{ID: "C34", Facts: facts, Gen: gen, Run: run, QuickN: 400, ThoroughN: 4000,
		Preamble: "Open Scope Z_scope.\n"})
}
