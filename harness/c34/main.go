// C34: compactor and store-gateway delays keep data queryable (protocol model).
// The harness ties the model's gateway-sync transition to the real filter chain
// and regenerates the constants of the protocol from the sources.
package main

import (
	"bytes"
	"context"
	"encoding/json"
	"fmt"
	"go/ast"
	"go/token"
	"io"
	"io/fs"
	"math/big"
	"math/rand"
	"os"
	"path"
	"path/filepath"
	"sort"
	"strconv"
	"strings"
	"sync"
	"time"

	"github.com/go-kit/log"
	"github.com/oklog/ulid/v2"
	"github.com/prometheus/client_golang/prometheus"
	"github.com/prometheus/client_golang/prometheus/promauto"
	"github.com/prometheus/common/model"
	"github.com/prometheus/prometheus/model/labels"
	"github.com/prometheus/prometheus/tsdb"
	"github.com/thanos-io/objstore"

	"github.com/thanos-io/thanos/pkg/block"
	"github.com/thanos-io/thanos/pkg/block/metadata"
	"github.com/thanos-io/thanos/pkg/compact"
	"github.com/thanos-io/thanos/pkg/logutil"
	"github.com/thanos-io/thanos/pkg/testutil/e2eutil"
	"github.com/thanos-io/thanos/zzverif/common"
	cu "github.com/thanos-io/thanos/zzverif/compactutil"
)

type blk struct {
	T       uint64 `json:"t"`
	E       uint16 `json:"e"`
	Sources []int  `json:"sources"`
	// deletion mark age in seconds at the time of the sync; nil = not marked
	MarkAge *int64 `json:"mark_age,omitempty"`
}

type input struct {
	// kind "" / "sync": one gateway sync through the real filter chain.
	// kind "compact": one run of the real BucketCompactor.Compact; its bucket operations are
	// replayed against the protocol's guards.  Scenario: merge (four aligned real blocks),
	// dups (meta-only duplicates to garbage-collect), rewrite (a tombstone-heavy block that is
	// rewritten alone), or several of them.
	Kind    string `json:"kind,omitempty"`
	DelayS  int64  `json:"delay_s,omitempty"`
	Blocks  []blk  `json:"blocks,omitempty"`
	Merge   bool   `json:"merge,omitempty"`
	Dups    int    `json:"dups,omitempty"`
	Rewrite bool   `json:"rewrite,omitempty"`
	// the rewrite scenario makes the compactor loop: it is stopped after this many ms
	TimeoutMs int64 `json:"timeout_ms,omitempty"`
}

// ---- tie T -------------------------------------------------------------------------

func flagDefault(s *common.SrcFile, flag string) (string, error) {
	var out string
	n := 0
	ast.Inspect(s.File, func(x ast.Node) bool {
		ce, ok := x.(*ast.CallExpr)
		if !ok {
			return true
		}
		se, ok := ce.Fun.(*ast.SelectorExpr)
		if !ok || se.Sel.Name != "Default" || len(ce.Args) != 1 {
			return true
		}
		// walk down the receiver chain to the .Flag("name", ...) call
		for r := se.X; ; {
			rc, ok := r.(*ast.CallExpr)
			if !ok {
				break
			}
			rs, ok := rc.Fun.(*ast.SelectorExpr)
			if !ok {
				break
			}
			if rs.Sel.Name == "Flag" && len(rc.Args) >= 1 {
				if lit, ok := rc.Args[0].(*ast.BasicLit); ok && lit.Kind == token.STRING {
					if name, _ := strconv.Unquote(lit.Value); name == flag {
						if dl, ok := ce.Args[0].(*ast.BasicLit); ok && dl.Kind == token.STRING {
							out, _ = strconv.Unquote(dl.Value)
							n++
						}
					}
				}
				break
			}
			r = rs.X
		}
		return true
	})
	if n != 1 {
		return "", fmt.Errorf("srcfacts: %s: expected one Default(...) for flag %q, found %d", s.Path, flag, n)
	}
	return out, nil
}

func seconds(d string) (int64, error) {
	v, err := model.ParseDuration(d)
	if err != nil {
		return 0, err
	}
	return int64(time.Duration(v) / time.Second), nil
}

// position of the first element of the []block.MetadataFilter{...} literal in fn whose text contains what
func filterPos(s *common.SrcFile, fn string, whats ...string) ([]int, error) {
	fd, err := s.FindFunc(fn)
	if err != nil {
		return nil, err
	}
	pos := make([]int, len(whats))
	for i := range pos {
		pos[i] = -1
	}
	found := 0
	ast.Inspect(fd.Body, func(x ast.Node) bool {
		cl, ok := x.(*ast.CompositeLit)
		if !ok || s.ExprString(cl.Type) != "[]block.MetadataFilter" {
			return true
		}
		hit := false
		p := make([]int, len(whats))
		for i := range p {
			p[i] = -1
		}
		for j, el := range cl.Elts {
			txt := s.ExprString(el)
			for i, w := range whats {
				if p[i] < 0 && len(txt) >= len(w) && txt[:len(w)] == w {
					p[i] = j
					hit = true
				}
			}
		}
		if hit && found == 0 {
			copy(pos, p)
			found++
		}
		return true
	})
	return pos, nil
}

func facts(repo string, w io.Writer) error {
	cs, err := common.ParseSrc(repo, "cmd/thanos/compact.go")
	if err != nil {
		return err
	}
	ss, err := common.ParseSrc(repo, "cmd/thanos/store.go")
	if err != nil {
		return err
	}
	for _, f := range []struct {
		s          *common.SrcFile
		flag, name string
	}{
		{cs, "delete-delay", "compact_delete_delay_default"},
		{ss, "ignore-deletion-marks-delay", "store_ignore_deletion_marks_delay_default"},
		{ss, "sync-block-duration", "store_sync_block_duration_default"},
	} {
		d, err := flagDefault(f.s, f.flag)
		if err != nil {
			return err
		}
		sec, err := seconds(d)
		if err != nil {
			return err
		}
		fmt.Fprintf(w, "(* %s: flag --%s Default(%q), in seconds *)\nDefinition %s : Z := %d.\n", f.s.Path, f.flag, d, f.name, sec)
	}
	// block.NewIgnoreDeletionMarkFilter(logger, insBkt, deleteDelay/2, ...) in runCompact
	fd, err := cs.FindFunc("runCompact")
	if err != nil {
		return err
	}
	var arg ast.Expr
	n := 0
	ast.Inspect(fd.Body, func(x ast.Node) bool {
		if ce, ok := x.(*ast.CallExpr); ok && cs.ExprString(ce.Fun) == "block.NewIgnoreDeletionMarkFilter" && len(ce.Args) >= 3 {
			arg = ce.Args[2]
			n++
		}
		return true
	})
	if n != 1 {
		return fmt.Errorf("srcfacts: cmd/thanos/compact.go: expected one block.NewIgnoreDeletionMarkFilter call in runCompact, found %d", n)
	}
	e, err := cs.TranslateExpr(arg, nil, nil)
	if err != nil {
		return err
	}
	fmt.Fprintf(w, "(* cmd/thanos/compact.go: delay of the compactor's own IgnoreDeletionMarkFilter *)\nDefinition compact_ignore_delay_expr (deleteDelay : Z) : Z :=\n  %s.\n", e)
	// the compactor's own steps: statement order in pkg/compact/compact.go
	ps, err := common.ParseSrc(repo, "pkg/compact/compact.go")
	if err != nil {
		return err
	}
	for _, f := range []struct{ fn, name string }{
		{"Group.compact", "group_compact_events"},
		{"Group.deleteBlock", "deleteBlock_events"},
		{"Syncer.GarbageCollect", "GarbageCollect_events"},
	} {
		evs, err := ps.CallOrder(f.fn)
		if err != nil {
			return err
		}
		fmt.Fprintf(w, "(* pkg/compact/compact.go: %s *)\n", f.fn)
		fmt.Fprint(w, common.EventsCoq(f.name, evs))
	}
	p, err := filterPos(ss, "runStore", "ignoreDeletionMarkFilter", "block.NewDeduplicateFilter")
	if err != nil {
		return err
	}
	fmt.Fprintf(w, "(* cmd/thanos/store.go: in the gateway's filter chain the deletion-mark filter runs before the duplicate filter *)\nDefinition store_marks_filter_before_dedup : bool := %v.\n", p[0] >= 0 && p[1] >= 0 && p[0] < p[1])
	p, err = filterPos(cs, "runCompact", "ignoreDeletionMarkFilter", "duplicateBlocksFilter")
	if err != nil {
		return err
	}
	fmt.Fprintf(w, "(* cmd/thanos/compact.go: same order in the compactor's chain *)\nDefinition compact_marks_filter_before_dedup : bool := %v.\n", p[0] >= 0 && p[1] >= 0 && p[0] < p[1])
	return nil
}

// ---- tie C: one gateway sync through the real filter chain ---------------------------

func mkULID(t uint64, e uint16) ulid.ULID {
	var u ulid.ULID
	_ = u.SetTime(t)
	u[14], u[15] = byte(e>>8), byte(e)
	return u
}

func zOf(u ulid.ULID) string { return new(big.Int).SetBytes(u[:]).String() + "%Z" }

func run(raw json.RawMessage) (common.Case, error) {
	var in input
	if err := json.Unmarshal(raw, &in); err != nil {
		return common.Case{}, err
	}
	if in.Kind == "compact" {
		return runCompact(in)
	}
	var c common.Case
	ctx := context.Background()
	bkt := objstore.NewInMemBucket()
	now := time.Now().Unix()
	src := func(i int) ulid.ULID { return mkULID(uint64(1+i), 0) }
	var bs []string
	marked, hiddenByMark := 0, 0
	for _, b := range in.Blocks {
		id := mkULID(b.T, b.E)
		m := metadata.Meta{}
		m.Version = 1
		m.ULID = id
		m.MaxTime = 1000
		m.Thanos.Labels = map[string]string{"cluster": "a"}
		var ss []string
		for _, s := range b.Sources {
			m.Compaction.Sources = append(m.Compaction.Sources, src(s))
			ss = append(ss, zOf(src(s)))
		}
		mj, _ := json.Marshal(m)
		if err := bkt.Upload(ctx, path.Join(id.String(), block.MetaFilename), bytes.NewReader(mj)); err != nil {
			return c, err
		}
		mk := common.None
		if b.MarkAge != nil {
			marked++
			if d := *b.MarkAge - in.DelayS; d > -10 && d < 10 {
				return c, fmt.Errorf("mark age within 10 s of the delay: not decidable against the wall clock")
			}
			if *b.MarkAge > in.DelayS {
				hiddenByMark++
			}
			dm, _ := json.Marshal(metadata.DeletionMark{ID: id, Version: 1, DeletionTime: now - *b.MarkAge})
			if err := bkt.Upload(ctx, path.Join(id.String(), metadata.DeletionMarkFilename), bytes.NewReader(dm)); err != nil {
				return c, err
			}
			mk = common.Some(common.Z(now - *b.MarkAge))
		}
		bs = append(bs, common.App("mk_mblk", common.App("mk_b", zOf(id), common.Z(0), common.List(ss), common.Z(0)), mk))
	}
	ins := objstore.WithNoopInstr(bkt)
	logger := log.NewNopLogger()
	// the store gateway's chain (cmd/thanos/store.go), as far as this property goes
	f, err := block.NewMetaFetcher(logger, 4, ins, block.NewRecursiveLister(logger, ins), "", nil, []block.MetadataFilter{
		block.NewIgnoreDeletionMarkFilter(logger, ins, time.Duration(in.DelayS)*time.Second, 4),
		block.NewDeduplicateFilter(4),
	})
	if err != nil {
		return c, err
	}
	metas, _, err := f.Fetch(ctx)
	if err != nil {
		return c, err
	}
	var kept []ulid.ULID
	for id := range metas {
		kept = append(kept, id)
	}
	sort.Slice(kept, func(i, j int) bool { return kept[i].Compare(kept[j]) < 0 })
	var ks, kobs []string
	for _, u := range kept {
		ks = append(ks, zOf(u))
		kobs = append(kobs, u.String())
	}
	c.Obs = map[string]any{"kept": kobs, "blocks": len(in.Blocks), "marked": marked, "hidden_by_mark": hiddenByMark}
	c.Class = fmt.Sprintf("marked=%d/hidden=%d/dedup=%d", min(marked, 3), min(hiddenByMark, 3), min(len(in.Blocks)-hiddenByMark-len(kept), 3))
	c.Nontrivial = hiddenByMark > 0 && len(in.Blocks)-hiddenByMark-len(kept) > 0
	c.Coq = common.App("CSyncView", common.Z(now), common.Z(in.DelayS), common.List(bs), common.List(ks))
	return c, nil
}

// ---- tie C (2): the real compactor's bucket operations against the protocol's guards ----

var (
	tmplOnce sync.Once
	tmplErr  error
	tmplObjs map[string]map[string][]byte // scenario part -> object name -> content
)

func buildTemplate() {
	dir, err := os.MkdirTemp("", "verif-c34-")
	if err != nil {
		tmplErr = err
		return
	}
	defer os.RemoveAll(dir)
	tmplObjs = map[string]map[string][]byte{"merge": {}, "rewrite": {}}
	series := []labels.Labels{labels.FromStrings("a", "1"), labels.FromStrings("a", "2")}
	mk := func(part string, mint, maxt int64, stream string, tomb uint64) {
		id, err := e2eutil.CreateBlock(context.Background(), dir, series, 20, mint, maxt, labels.FromStrings("stream", stream), 0, metadata.NoneFunc, nil)
		if err != nil {
			tmplErr = err
			return
		}
		bdir := filepath.Join(dir, id.String())
		if tomb > 0 {
			m, err := metadata.ReadFromDir(bdir)
			if err != nil {
				tmplErr = err
				return
			}
			m.Stats.NumTombstones = tomb
			if err := m.WriteToDir(log.NewNopLogger(), bdir); err != nil {
				tmplErr = err
				return
			}
		}
		err = filepath.WalkDir(bdir, func(p string, d fs.DirEntry, err error) error {
			if err != nil || d.IsDir() {
				return err
			}
			b, err := os.ReadFile(p)
			if err != nil {
				return err
			}
			rel, _ := filepath.Rel(dir, p)
			tmplObjs[part][filepath.ToSlash(rel)] = b
			return nil
		})
		if err != nil {
			tmplErr = err
		}
	}
	for i := int64(0); i < 4; i++ {
		mk("merge", i*1000, (i+1)*1000, "merge", 0)
	}
	// a block at least ranges[len/2] long whose meta reports many tombstones, and a newer one
	mk("rewrite", 0, 4000, "rewrite", 10)
	mk("rewrite", 4000, 5000, "rewrite", 0)
}

func metaOnly(id ulid.ULID, stream string, mint, maxt int64, sources []ulid.ULID) []byte {
	m := metadata.Meta{}
	m.Version = 1
	m.ULID = id
	m.MinTime, m.MaxTime = mint, maxt
	m.Compaction.Level = 1
	m.Compaction.Sources = sources
	if sources == nil {
		m.Compaction.Sources = []ulid.ULID{id}
	}
	m.Stats = tsdb.BlockStats{NumSamples: 1, NumSeries: 1, NumChunks: 1}
	m.Thanos.Labels = map[string]string{"stream": stream}
	m.Thanos.Version = 1
	b, _ := json.Marshal(m)
	return b
}

type binfo struct {
	id      ulid.ULID
	group   string
	sources []ulid.ULID
	level   int
}

func readInfo(bkt objstore.Bucket, id ulid.ULID) (*binfo, error) {
	r, err := bkt.Get(context.Background(), path.Join(id.String(), block.MetaFilename))
	if err != nil {
		return nil, err
	}
	defer r.Close()
	var m metadata.Meta
	if err := json.NewDecoder(r).Decode(&m); err != nil {
		return nil, err
	}
	return &binfo{id: id, group: m.Thanos.GroupKey(), sources: m.Compaction.Sources, level: m.Compaction.Level}, nil
}

func runCompact(in input) (common.Case, error) {
	var c common.Case
	tmplOnce.Do(buildTemplate)
	if tmplErr != nil {
		return c, tmplErr
	}
	ctx := context.Background()
	inmem := objstore.NewInMemBucket()
	put := func(name string, b []byte) error { return inmem.Upload(ctx, name, bytes.NewReader(b)) }
	if in.Merge {
		for k, v := range tmplObjs["merge"] {
			if err := put(k, v); err != nil {
				return c, err
			}
		}
	}
	if in.Rewrite {
		for k, v := range tmplObjs["rewrite"] {
			if err := put(k, v); err != nil {
				return c, err
			}
		}
	}
	if in.Dups > 0 {
		parent := mkULID(6000, 0)
		var srcs []ulid.ULID
		for i := 0; i < in.Dups; i++ {
			srcs = append(srcs, mkULID(uint64(6001+i), 0))
		}
		if err := put(path.Join(parent.String(), "meta.json"), metaOnly(parent, "dup", 0, int64(1000*len(srcs)), srcs)); err != nil {
			return c, err
		}
		for i, s := range srcs {
			if err := put(path.Join(s.String(), "meta.json"), metaOnly(s, "dup", int64(1000*i), int64(1000*(i+1)), nil)); err != nil {
				return c, err
			}
		}
	}
	// initial blocks
	var initial []ulid.ULID
	if err := inmem.Iter(ctx, "", func(name string) error {
		if u, err := ulid.Parse(strings.TrimSuffix(name, "/")); err == nil {
			initial = append(initial, u)
		}
		return nil
	}); err != nil {
		return c, err
	}
	bkt := cu.NewRecBucket(inmem)
	logger := log.NewNopLogger()
	ins := objstore.WithNoopInstr(bkt)
	dd := 48 * time.Hour
	idm := block.NewIgnoreDeletionMarkFilter(logger, ins, dd/2, 4) // cmd/thanos/compact.go: deleteDelay/2
	dup := block.NewDeduplicateFilter(4)
	nc := compact.NewGatherNoCompactionMarkFilter(logger, ins, 4)
	fetcher, err := block.NewMetaFetcher(logger, 4, ins, block.NewRecursiveLister(logger, ins), "", nil, []block.MetadataFilter{idm, dup, nc})
	if err != nil {
		return c, err
	}
	cnt := func() prometheus.Counter { return promauto.With(nil).NewCounter(prometheus.CounterOpts{}) }
	sy, err := compact.NewMetaSyncer(logger, nil, bkt, fetcher, dup, idm, cnt(), cnt(), 0)
	if err != nil {
		return c, err
	}
	tc, err := tsdb.NewLeveledCompactor(ctx, nil, logutil.GoKitLogToSlog(logger), []int64{1000, 3000}, nil, nil)
	if err != nil {
		return c, err
	}
	planner := compact.NewPlanner(logger, []int64{1000, 3000}, nc)
	grouper := compact.NewDefaultGrouper(logger, bkt, false, false, nil, cnt(), cnt(), cnt(), metadata.NoneFunc, 4, 4)
	dir, err := os.MkdirTemp("", "verif-c34-run-")
	if err != nil {
		return c, err
	}
	defer os.RemoveAll(dir)
	bc, err := compact.NewBucketCompactor(logger, sy, grouper, planner, tc, filepath.Join(dir, "compact"), bkt, 1, false,
		compact.NewBlocksCleaner(logger, bkt, idm, dd, cnt(), cnt()))
	if err != nil {
		return c, err
	}
	to := time.Duration(in.TimeoutMs) * time.Millisecond
	if to <= 0 {
		to = 60 * time.Second
	}
	rctx, cancel := context.WithTimeout(ctx, to)
	cerr := bc.Compact(rctx)
	cancel()

	// the operation log in terms of blocks
	type op struct {
		kind string
		id   ulid.ULID
	}
	var ops []op
	infos := map[ulid.ULID]*binfo{}
	for _, id := range initial {
		bi, err := readInfo(inmem, id)
		if err != nil {
			return c, err
		}
		infos[id] = bi
	}
	for _, o := range bkt.Ops() {
		if !o.Mutating() {
			continue
		}
		parts := strings.Split(o.Name, "/")
		u, perr := ulid.Parse(parts[0])
		if perr != nil || len(parts) != 2 {
			continue
		}
		switch {
		case o.Kind == "upload" && parts[1] == block.MetaFilename:
			bi, err := readInfo(inmem, u)
			if err != nil {
				return c, fmt.Errorf("uploaded block %s not readable afterwards: %v", u, err)
			}
			infos[u] = bi
			ops = append(ops, op{"OUpload", u})
		case o.Kind == "upload" && parts[1] == metadata.DeletionMarkFilename:
			ops = append(ops, op{"OMark", u})
		case o.Kind == "delete" && parts[1] == block.MetaFilename:
			ops = append(ops, op{"ODelete", u})
		}
	}
	// numbering: rank of the ULID
	var all []ulid.ULID
	seen := map[ulid.ULID]bool{}
	for _, bi := range infos {
		for _, u := range append([]ulid.ULID{bi.id}, bi.sources...) {
			if !seen[u] {
				seen[u] = true
				all = append(all, u)
			}
		}
	}
	sort.Slice(all, func(i, j int) bool { return all[i].Compare(all[j]) < 0 })
	num := map[ulid.ULID]int64{}
	for i, u := range all {
		num[u] = int64(i + 1)
	}
	groups := map[string]int64{}
	coqBlk := func(bi *binfo) string {
		if _, ok := groups[bi.group]; !ok {
			groups[bi.group] = int64(len(groups))
		}
		var ss []int64
		for _, u := range bi.sources {
			ss = append(ss, num[u])
		}
		return common.App("mk_b", common.Z(num[bi.id]), common.Z(groups[bi.group]), common.ZList(ss), common.Z(int64(bi.level)))
	}
	sort.Slice(initial, func(i, j int) bool { return initial[i].Compare(initial[j]) < 0 })
	var bs, os_ []string
	for _, id := range initial {
		bs = append(bs, common.App("mk_mblk", coqBlk(infos[id]), common.None))
	}
	// Go-side replay of the Mark guard (search aid): a block may be marked only while each of its
	// sources is also a source of another existing unmarked block
	type st struct {
		marked bool
	}
	cur := map[ulid.ULID]*st{}
	for _, id := range initial {
		cur[id] = &st{}
	}
	marks := 0
	for _, o := range ops {
		switch o.kind {
		case "OUpload":
			os_ = append(os_, common.App("OUpload", coqBlk(infos[o.id])))
			cur[o.id] = &st{}
		case "OMark":
			os_ = append(os_, common.App("OMark", common.Z(num[o.id])))
			marks++
			if c.GoPred == "" && cur[o.id] != nil && !cur[o.id].marked {
				for _, s := range infos[o.id].sources {
					ok := false
					for other, stt := range cur {
						if other == o.id || stt.marked {
							continue
						}
						for _, s2 := range infos[other].sources {
							if s2 == s {
								ok = true
							}
						}
					}
					if !ok {
						c.GoPred = fmt.Sprintf("block %s was marked for deletion while no other unmarked block contains its source %s (it is only covered by blocks that are themselves marked for deletion)", o.id, s)
						c.Sig = "gc-marks-rewrite-result"
					}
				}
			}
			if cur[o.id] != nil {
				cur[o.id].marked = true
			}
		case "ODelete":
			os_ = append(os_, common.App("ODelete", common.Z(num[o.id])))
			delete(cur, o.id)
		}
	}
	var finalIDs, finalMarked []int64
	if err := inmem.Iter(ctx, "", func(name string) error {
		u, perr := ulid.Parse(strings.TrimSuffix(name, "/"))
		if perr != nil {
			return nil
		}
		if ok, _ := inmem.Exists(ctx, path.Join(u.String(), block.MetaFilename)); !ok {
			return nil
		}
		finalIDs = append(finalIDs, num[u])
		if ok, _ := inmem.Exists(ctx, path.Join(u.String(), metadata.DeletionMarkFilename)); ok {
			finalMarked = append(finalMarked, num[u])
		}
		return nil
	}); err != nil {
		return c, err
	}
	c.Obs = map[string]any{"compact_error": fmt.Sprint(cerr), "uploads_marks_deletes": len(ops), "marks": marks, "final_blocks": len(finalIDs), "final_marked": len(finalMarked)}
	c.Class = fmt.Sprintf("compact/merge=%v/dups=%d/rewrite=%v", in.Merge, in.Dups, in.Rewrite)
	c.Nontrivial = marks > 0
	c.Coq = common.App("CMarkLog", common.List(bs), common.List(os_), common.ZList(finalIDs), common.ZList(finalMarked))
	return c, nil
}

func gen(r *rand.Rand, tier string, n int) []any {
	var out []any
	// a few runs of the real compactor (no rewrite scenario here: that one is the known
	// finding reproduced from the corpus)
	nc := 6
	if tier == "thorough" {
		nc = 40
	}
	for i := 0; i < nc && i < n; i++ {
		in := input{Kind: "compact", Merge: r.Intn(3) > 0, Dups: r.Intn(4)}
		if !in.Merge && in.Dups == 0 {
			in.Merge = true
		}
		out = append(out, in)
	}
	n -= len(out)
	maxB := 10
	if tier == "thorough" {
		maxB = 30
	}
	for i := 0; i < n; i++ {
		in := input{DelayS: common.Pick(r, int64(0), 3600, 86400, 172800)}
		nb := r.Intn(maxB + 1)
		nsrc := 2 + r.Intn(6)
		used := map[[2]uint64]bool{}
		for len(in.Blocks) < nb {
			b := blk{T: uint64(1000 + r.Intn(30)), E: uint16(r.Intn(3))}
			if used[[2]uint64{b.T, uint64(b.E)}] {
				continue
			}
			used[[2]uint64{b.T, uint64(b.E)}] = true
			a := r.Intn(nsrc)
			z := a + 1 + r.Intn(nsrc-a)
			for s := a; s < z; s++ {
				b.Sources = append(b.Sources, s)
			}
			if r.Intn(2) == 0 {
				// marks well away from the boundary (the real filter reads the wall clock)
				age := common.Pick(r, int64(0), 60, in.DelayS/2, in.DelayS-30, in.DelayS+30, 2*in.DelayS+100, 400000)
				if d := age - in.DelayS; d > -10 && d < 10 {
					age = in.DelayS + 30
				}
				if age < 0 {
					age = 0
				}
				if d := age - in.DelayS; d > -10 && d < 10 {
					age = in.DelayS + 30
				}
				b.MarkAge = &age
			}
			in.Blocks = append(in.Blocks, b)
		}
		if in.Blocks == nil {
			in.Blocks = []blk{}
		}
		out = append(out, in)
	}
	return out
}

func main() {
	common.Main(common.Prop{ID: "C34", Facts: facts, Gen: gen, Run: run, QuickN: 400, ThoroughN: 4000,
		Preamble: "Open Scope Z_scope.\n"})
}
