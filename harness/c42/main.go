// C42: the results cache never changes query results.
package main

import (
	"context"
	"encoding/json"
	"fmt"
	"go/ast"
	"go/token"
	"io"
	"math/rand"
	"regexp"
	"sort"
	"strconv"
	"sync"
	"time"

	"github.com/go-kit/log"
	"github.com/gogo/protobuf/proto"
	"github.com/gogo/protobuf/types"
	"github.com/weaveworks/common/user"

	"github.com/thanos-io/thanos/internal/cortex/chunk/cache"
	"github.com/thanos-io/thanos/internal/cortex/cortexpb"
	"github.com/thanos-io/thanos/internal/cortex/querier/queryrange"
	"github.com/thanos-io/thanos/pkg/queryfrontend"
	"github.com/thanos-io/thanos/zzverif/common"
)

type seriesIn struct {
	ID       int64      `json:"id"`
	Present  [][2]int64 `json:"present"`            // closed intervals in which the series has a float sample
	HPresent [][2]int64 `json:"hpresent,omitempty"` // closed intervals in which it has a native-histogram sample
}

// In the Coq model a stream holds one kind of samples: series id s becomes the two model
// series 2s (float samples) and 2s+1 (native-histogram samples, value = the histogram's count).
func floatID(id int64) int64 { return 2 * id }
func histID(id int64) int64  { return 2*id + 1 }

type queryIn struct {
	Start int64 `json:"start"`
	End   int64 `json:"end"`
	Step  int64 `json:"step"`
}

type input struct {
	SplitMs  int64      `json:"split_ms"`
	UseSplit bool       `json:"use_split"`
	Series   []seriesIn `json:"series"`
	Queries  []queryIn  `json:"queries"`
	// the downstream answers with Cache-Control: no-store when the request starts in one of these intervals
	NoStore [][2]int64 `json:"nostore,omitempty"`
	// when > 0 the query is `m @ <AtMs/1000>` (ms); a response fetched for a request ending before it is not storable
	AtMs int64  `json:"at_ms,omitempty"`
	Note string `json:"note,omitempty"`
}

type limits struct{}

func (limits) MaxQueryLookback(string) time.Duration  { return 0 }
func (limits) MaxQueryLength(string) time.Duration    { return 0 }
func (limits) MaxQueryParallelism(string) int         { return 1 }
func (limits) MaxCacheFreshness(string) time.Duration { return 0 }

// mapCache is an in-memory cache.Cache.
type mapCache struct {
	mu sync.Mutex
	m  map[string][]byte
}

func (c *mapCache) Store(_ context.Context, keys []string, bufs [][]byte) {
	c.mu.Lock()
	defer c.mu.Unlock()
	for i := range keys {
		c.m[keys[i]] = bufs[i]
	}
}
func (c *mapCache) Fetch(_ context.Context, keys []string) (found []string, bufs [][]byte, missing []string) {
	c.mu.Lock()
	defer c.mu.Unlock()
	for _, k := range keys {
		if b, ok := c.m[k]; ok {
			found = append(found, k)
			bufs = append(bufs, b)
		} else {
			missing = append(missing, k)
		}
	}
	return
}
func (c *mapCache) Stop() {}

func facts(repo string, w io.Writer) error {
	s, err := common.ParseSrc(repo, "internal/cortex/querier/queryrange/results_cache.go")
	if err != nil {
		return err
	}
	d, err := s.TranslateFunc("isTimestampAtStep", common.TranslateOpts{})
	if err != nil {
		return err
	}
	// `end` is a Coq keyword: the parameter is renamed end_ (textual, whole identifiers only)
	d = regexp.MustCompile(`\bend\b`).ReplaceAllString(d, "end_")
	fmt.Fprintln(w, "(* internal/cortex/querier/queryrange/results_cache.go: isTimestampAtStep (parameter end renamed end_) *)")
	fmt.Fprintln(w, d)
	mw, _, err := newCacheMiddleware(&mapCache{m: map[string][]byte{}})
	if err != nil {
		return err
	}
	fmt.Fprintln(w, "(* resultsCache.minCacheExtent as constructed by NewResultsCacheMiddleware (value in the linked binary) *)")
	fmt.Fprintf(w, "Definition min_cache_extent : Z := %d.\n", queryrange.VerifC42MinCacheExtent(mw))
	fmt.Fprintln(w, "(* pkg/queryfrontend/cache.go: commonQuerySteps, in order *)")
	fmt.Fprintf(w, "Definition common_query_steps : list Z := %s.\n", common.ZList(queryfrontend.VerifC42CommonQuerySteps()))
	// handleHit: the fetched response is appended to the answer before the shouldCacheResponse test
	evs, err := s.CallOrder("resultsCache.handleHit")
	if err != nil {
		return err
	}
	iDo := common.IndexOf(evs, "call", "DoRequests")
	if iDo < 0 {
		return fmt.Errorf("srcfacts: handleHit: no call to DoRequests")
	}
	loop := evs[iDo+1:]
	iApp, iTest := common.IndexOf(loop, "call", "append"), common.IndexOf(loop, "call", "s.shouldCacheResponse")
	if iApp < 0 || iTest < 0 {
		return fmt.Errorf("srcfacts: handleHit: append / s.shouldCacheResponse not found after DoRequests")
	}
	end := iTest + 4
	if end > len(loop) {
		end = len(loop)
	}
	fmt.Fprintln(w, "(* results_cache.go handleHit: events after DoRequests up to the shouldCacheResponse test (source order) *)")
	fmt.Fprint(w, common.EventsCoq("handle_hit_loop_events", loop[:end]))
	fmt.Fprintln(w, "(* is the first append (responses = append(responses, reqResp.Response)) before the test? *)")
	fmt.Fprintf(w, "Definition answer_appended_before_store_test : bool := %s.\n", common.Bool(iApp < iTest))
	// the sort.Search predicates of SliceSamples / SliceHistogram: `ts > minTs` drops the sample at minTs
	qr, err := common.ParseSrc(repo, "internal/cortex/querier/queryrange/query_range.go")
	if err != nil {
		return err
	}
	for _, fn := range []string{"SliceSamples", "SliceHistogram"} {
		keeps, err := searchKeepsEqual(qr, fn)
		if err != nil {
			return err
		}
		fmt.Fprintf(w, "(* internal/cortex/querier/queryrange/query_range.go: %s keeps the sample at minTs iff its sort.Search predicate is `>=` *)\n", fn)
		fmt.Fprintf(w, "Definition %s_keeps_equal : bool := %s.\n", fn, common.Bool(keeps))
	}
	return nil
}

// searchKeepsEqual reads the comparison of the function literal passed to sort.Search in fn:
// `<ts> > minTs` (false) or `<ts> >= minTs` (true); anything else is refused.
func searchKeepsEqual(src *common.SrcFile, fn string) (bool, error) {
	fd, err := src.FindFunc(fn)
	if err != nil {
		return false, err
	}
	var op token.Token
	found := 0
	ast.Inspect(fd.Body, func(n ast.Node) bool {
		call, ok := n.(*ast.CallExpr)
		if !ok || len(call.Args) != 2 {
			return true
		}
		sel, ok := call.Fun.(*ast.SelectorExpr)
		if !ok || sel.Sel.Name != "Search" {
			return true
		}
		lit, ok := call.Args[1].(*ast.FuncLit)
		if !ok || len(lit.Body.List) != 1 {
			return true
		}
		ret, ok := lit.Body.List[0].(*ast.ReturnStmt)
		if !ok || len(ret.Results) != 1 {
			return true
		}
		be, ok := ret.Results[0].(*ast.BinaryExpr)
		if !ok {
			return true
		}
		if id, ok := be.Y.(*ast.Ident); !ok || id.Name != "minTs" {
			return true
		}
		op = be.Op
		found++
		return true
	})
	if found != 1 {
		return false, fmt.Errorf("srcfacts: %s: expected exactly one sort.Search(..., func(i) bool { return <ts> OP minTs })", fn)
	}
	switch op {
	case token.GTR:
		return false, nil
	case token.GEQ:
		return true, nil
	}
	return false, fmt.Errorf("srcfacts: %s: sort.Search predicate uses %s, not > or >=", fn, op)
}

func newCacheMiddleware(c cache.Cache) (queryrange.Middleware, cache.Cache, error) {
	return queryrange.NewResultsCacheMiddleware(log.NewNopLogger(),
		queryrange.ResultsCacheConfig{CacheConfig: cache.Config{Cache: c}},
		queryfrontend.VerifC42CacheSplitter(), limits{}, queryfrontend.NewThanosQueryRangeCodec(false),
		queryrange.PrometheusResponseExtractor{}, nil, queryfrontend.VerifC42ShouldCache, nil)
}

func val(s, t int64) float64 { return float64(t*16 + s) } // s = model series id (< 16)

func hpresent(s seriesIn, t int64) bool {
	for _, iv := range s.HPresent {
		if iv[0] <= t && t <= iv[1] {
			return true
		}
	}
	return false
}

func present(s seriesIn, t int64) bool {
	for _, iv := range s.Present {
		if iv[0] <= t && t <= iv[1] {
			return true
		}
	}
	return false
}

func sidLabel(id int64) string { return fmt.Sprintf("%03d", id) }

// downstream answers a range query from the series descriptions.
func downstream(series []seriesIn, nostore [][2]int64, calls *int) queryrange.Handler {
	return queryrange.HandlerFunc(func(_ context.Context, r queryrange.Request) (queryrange.Response, error) {
		*calls++
		var res []queryrange.SampleStream
		for _, s := range series {
			var smp []cortexpb.Sample
			var hs []queryrange.SampleHistogramPair
			for t := r.GetStart(); t <= r.GetEnd(); t += r.GetStep() {
				if present(s, t) {
					smp = append(smp, cortexpb.Sample{TimestampMs: t, Value: val(floatID(s.ID), t)})
				}
				if hpresent(s, t) {
					v := val(histID(s.ID), t)
					hs = append(hs, queryrange.SampleHistogramPair{Timestamp: t, Histogram: queryrange.SampleHistogram{Count: v, Sum: v}})
				}
			}
			if len(smp) > 0 || len(hs) > 0 {
				res = append(res, queryrange.SampleStream{
					Labels:     []cortexpb.LabelAdapter{{Name: "__name__", Value: "m"}, {Name: "s", Value: sidLabel(s.ID)}},
					Samples:    smp,
					Histograms: hs,
				})
			}
		}
		resp := &queryrange.PrometheusResponse{Status: queryrange.StatusSuccess,
			Data: queryrange.PrometheusData{ResultType: "matrix", Result: res}}
		for _, iv := range nostore {
			if iv[0] <= r.GetStart() && r.GetStart() <= iv[1] {
				resp.Headers = []*queryrange.PrometheusResponseHeader{{Name: "Cache-Control", Values: []string{"no-store"}}}
			}
		}
		return resp, nil
	})
}

type obsStream struct {
	ID      int64      `json:"id"`
	Samples [][2]int64 `json:"samples"`
}

func matrixOf(resp queryrange.Response) ([]obsStream, error) {
	pr, ok := resp.(*queryrange.PrometheusResponse)
	if !ok {
		return nil, fmt.Errorf("response type %T", resp)
	}
	var out []obsStream
	for _, st := range pr.Data.Result {
		id := int64(-1)
		for _, l := range st.Labels {
			if l.Name == "s" {
				v, err := strconv.ParseInt(l.Value, 10, 64)
				if err != nil {
					return nil, err
				}
				id = v
			}
		}
		o := obsStream{ID: floatID(id)}
		for _, s := range st.Samples {
			if s.Value != float64(int64(s.Value)) {
				return nil, fmt.Errorf("non-integral value")
			}
			o.Samples = append(o.Samples, [2]int64{s.TimestampMs, int64(s.Value)})
		}
		h := obsStream{ID: histID(id)}
		for _, p := range st.Histograms {
			if p.Histogram.Count != float64(int64(p.Histogram.Count)) || p.Histogram.Sum != p.Histogram.Count {
				return nil, fmt.Errorf("histogram sample changed")
			}
			h.Samples = append(h.Samples, [2]int64{p.Timestamp, int64(p.Histogram.Count)})
		}
		if len(o.Samples) == 0 && len(h.Samples) == 0 {
			return nil, fmt.Errorf("stream without samples")
		}
		if len(o.Samples) > 0 {
			out = append(out, o)
		}
		if len(h.Samples) > 0 {
			out = append(out, h)
		}
	}
	return out, nil
}

func coqIntervals(ivs [][2]int64) string {
	var out []string
	for _, iv := range ivs {
		out = append(out, common.Pair(common.Z(iv[0]), common.Z(iv[1])))
	}
	return common.List(out)
}

func coqAt(at int64) string {
	if at > 0 {
		return common.Some(common.Z(at))
	}
	return common.None
}

func coqMatrix(m []obsStream) string {
	var ss []string
	for _, st := range m {
		var ps []string
		for _, p := range st.Samples {
			ps = append(ps, common.Pair(common.Z(p[0]), common.Z(p[1])))
		}
		ss = append(ss, common.Pair(common.Z(st.ID), common.List(ps)))
	}
	return common.List(ss)
}

type obsExtent struct {
	Start, End int64
	M          []obsStream
}
type obsKey struct {
	Step, Window int64
	Extents      []obsExtent
}

// keyRecorder sits in front of the cache middleware and remembers which (step, window) each key string stands for.
type keyRecorder struct {
	next queryrange.Handler
	keys map[string][2]int64
	uid  string
}

func (k *keyRecorder) Do(ctx context.Context, r queryrange.Request) (queryrange.Response, error) {
	split := r.(queryfrontend.SplitRequest).GetSplitInterval().Milliseconds()
	k.keys[queryfrontend.VerifC42CacheSplitter().GenerateCacheKey(k.uid, r)] = [2]int64{r.GetStep(), r.GetStart() / split}
	return k.next.Do(ctx, r)
}

func run(raw json.RawMessage) (common.Case, error) {
	var in input
	if err := json.Unmarshal(raw, &in); err != nil {
		return common.Case{}, err
	}
	var c common.Case
	if in.SplitMs <= 0 || len(in.Queries) == 0 {
		return c, fmt.Errorf("bad input")
	}
	sort.Slice(in.Series, func(i, j int) bool { return in.Series[i].ID < in.Series[j].ID })
	mc := &mapCache{m: map[string][]byte{}}
	mw, _, err := newCacheMiddleware(mc)
	if err != nil {
		return c, err
	}
	calls := 0
	const uid = "t"
	rec := &keyRecorder{keys: map[string][2]int64{}, uid: uid}
	rec.next = mw.Wrap(downstream(in.Series, in.NoStore, &calls))
	var h queryrange.Handler = rec
	interval := time.Duration(in.SplitMs) * time.Millisecond
	codec := queryfrontend.NewThanosQueryRangeCodec(false)
	if in.UseSplit {
		h = queryfrontend.SplitByIntervalMiddleware(func(queryrange.Request) time.Duration { return interval }, limits{}, codec, nil).Wrap(h)
	}
	h = queryrange.StepAlignMiddleware.Wrap(h)
	ctx := user.InjectOrgID(context.Background(), uid)

	query := "m"
	if in.AtMs > 0 {
		query = fmt.Sprintf("m @ %d.%03d", in.AtMs/1000, in.AtMs%1000)
	}
	var resps [][]obsStream
	var coqResps []string
	wrong := -1
	for i, q := range in.Queries {
		if q.Step <= 0 || q.End < q.Start {
			return c, fmt.Errorf("bad query")
		}
		req := &queryfrontend.ThanosQueryRangeRequest{Path: "/api/v1/query_range", Start: q.Start, End: q.End, Step: q.Step, Query: query, Dedup: true, SplitInterval: interval}
		resp, err := h.Do(ctx, req)
		if err != nil {
			return c, err
		}
		m, err := matrixOf(resp)
		if err != nil {
			return c, err
		}
		resps = append(resps, m)
		coqResps = append(coqResps, coqMatrix(m))
		// Go-side predicate: compare with direct evaluation of the aligned query
		s, e := (q.Start/q.Step)*q.Step, (q.End/q.Step)*q.Step
		n := 0
		dresp, _ := downstream(in.Series, nil, &n).Do(ctx, req.WithStartEnd(s, e))
		dm, _ := matrixOf(dresp)
		if wrong < 0 && fmt.Sprint(dm) != fmt.Sprint(m) {
			wrong = i
		}
	}
	// final cache content
	var ks []obsKey
	for _, buf := range mc.m {
		var cr queryrange.CachedResponse
		if err := proto.Unmarshal(buf, &cr); err != nil {
			return c, err
		}
		sw, ok := rec.keys[cr.Key]
		if !ok {
			return c, fmt.Errorf("cache holds an unknown key %q", cr.Key)
		}
		k := obsKey{Step: sw[0], Window: sw[1]}
		for _, e := range cr.Extents {
			msg, err := types.EmptyAny(e.Response)
			if err != nil {
				return c, err
			}
			if err := types.UnmarshalAny(e.Response, msg); err != nil {
				return c, err
			}
			m, err := matrixOf(msg.(queryrange.Response))
			if err != nil {
				return c, err
			}
			k.Extents = append(k.Extents, obsExtent{e.Start, e.End, m})
		}
		ks = append(ks, k)
	}
	sort.Slice(ks, func(i, j int) bool {
		if ks[i].Step != ks[j].Step {
			return ks[i].Step < ks[j].Step
		}
		return ks[i].Window < ks[j].Window
	})
	var coqCache []string
	for _, k := range ks {
		var es []string
		for _, e := range k.Extents {
			es = append(es, common.Tuple(common.Z(e.Start), common.Z(e.End), coqMatrix(e.M)))
		}
		coqCache = append(coqCache, common.Pair(common.Pair(common.Z(k.Step), common.Z(k.Window)), common.List(es)))
	}
	var sd, qs []string
	for _, s := range in.Series {
		var iv, hv []string
		for _, p := range s.Present {
			iv = append(iv, common.Pair(common.Z(p[0]), common.Z(p[1])))
		}
		for _, p := range s.HPresent {
			hv = append(hv, common.Pair(common.Z(p[0]), common.Z(p[1])))
		}
		sd = append(sd, common.Pair(common.Z(floatID(s.ID)), common.List(iv)), common.Pair(common.Z(histID(s.ID)), common.List(hv)))
	}
	for _, q := range in.Queries {
		qs = append(qs, common.Tuple(common.Z(q.Start), common.Z(q.End), common.Z(q.Step)))
	}
	c.Coq = common.App("CHist", common.Z(in.SplitMs), common.Bool(in.UseSplit), common.List(sd), coqIntervals(in.NoStore), coqAt(in.AtMs), common.List(qs), common.List(coqResps), common.List(coqCache))
	c.Obs = map[string]any{"responses": resps, "cache": ks, "downstream_calls": calls}
	c.Class = fmt.Sprintf("queries=%d split=%v", len(in.Queries), in.UseSplit)
	if in.Note != "" {
		c.Class = in.Note + " " + c.Class
	}
	c.Nontrivial = len(in.Queries) >= 2 && len(ks) > 0
	if wrong >= 0 {
		c.GoPred = fmt.Sprintf("answer %d (query %+v) differs from direct evaluation", wrong, in.Queries[wrong])
		c.Sig = classify(in, wrong)
	}
	return c, nil
}

// classify names the failing situation narrowly (for known findings).
func classify(in input, i int) string {
	q := in.Queries[i]
	// an earlier query with a smaller step that divides this one: the lower-step cache path
	for _, p := range in.Queries[:i] {
		if p.Step < q.Step && q.Step%p.Step == 0 {
			for _, cs := range queryfrontend.VerifC42LowerStepCacheCandidates(q.Step) {
				if cs == p.Step {
					return "lower-step-offgrid"
				}
			}
		}
	}
	return "wrong-answer"
}

// ---- generators ----

func genSeries(r *rand.Rand, lo, hi int64, dense bool) []seriesIn {
	n := 1 + r.Intn(4)
	var out []seriesIn
	for i := 0; i < n; i++ {
		s := seriesIn{ID: int64(i*2 + r.Intn(2))}
		if dense || r.Intn(3) == 0 {
			s.Present = [][2]int64{{lo - 1000000, hi + 1000000}}
		} else {
			k := 1 + r.Intn(3)
			for j := 0; j < k; j++ {
				a := common.Between(r, lo, hi)
				b := a + common.Between(r, 0, (hi-lo)/2+1)
				s.Present = append(s.Present, [2]int64{a, b})
			}
		}
		// sample kind: float, native histogram, or both (possibly on different intervals)
		switch r.Intn(4) {
		case 0:
			s.HPresent, s.Present = s.Present, nil
		case 1:
			s.HPresent = append([][2]int64(nil), s.Present...)
			if r.Intn(2) == 0 {
				a := common.Between(r, lo, hi)
				s.HPresent = [][2]int64{{a, a + common.Between(r, 0, (hi-lo)/2+1)}}
			}
		}
		out = append(out, s)
	}
	return out
}

// tinyMotif: a cached extent, a tiny extent beyond it (shorter than the minimum cache extent), a
// long query that ignores the tiny extent but overlaps it by several samples, and queries served
// from the merged extent.
func tinyMotif(r *rand.Rand, minExt int64) input {
	step := common.Pick(r, int64(60000), 30000, 15000, 60000)
	base := common.Pick(r, int64(0), 3600000, 86400000*2) + common.Between(r, 0, 30)*step
	n1 := minExt/step + common.Between(r, 2, 8) // first extent: longer than the minimum
	gap := common.Between(r, 2, 10)             // steps between the first extent and the tiny one
	tiny := common.Between(r, 1, minExt/step-1) // tiny extent length in steps (< minimum)
	e1 := base + n1*step
	t0 := e1 + gap*step
	t1 := t0 + tiny*step
	in := input{SplitMs: 86400000 * 4, UseSplit: r.Intn(3) == 0, Note: "tiny-extent"}
	in.Series = genSeries(r, base, t1, r.Intn(2) == 0)
	over := common.Between(r, 1, tiny) // the long query ends this many steps inside the tiny extent
	q3s := base + common.Between(r, 0, n1)*step
	if q3e := t0 + over*step; r.Intn(4) > 0 && q3e-q3s <= minExt { // usually longer than the minimum extent
		q3s = q3e - minExt - step
	}
	in.Queries = []queryIn{{base, e1, step}, {t0, t1, step}, {q3s, t0 + over*step, step}}
	for k := r.Intn(3) + 1; k > 0; k-- {
		a := base + common.Between(r, 0, n1+gap)*step
		in.Queries = append(in.Queries, queryIn{a, a + common.Between(r, 0, (t1-a)/step)*step, step})
	}
	in.Queries = append(in.Queries, queryIn{base, t1, step})
	if r.Intn(3) == 0 { // sometimes the tiny query comes first
		in.Queries[0], in.Queries[1] = in.Queries[1], in.Queries[0]
	}
	scriptStorability(r, &in, base, t1)
	return in
}

func gen(r *rand.Rand, tier string, n int) []any {
	var out []any
	maxQ := 6
	if tier == "thorough" {
		maxQ = 8
	}
	mw, _, _ := newCacheMiddleware(&mapCache{m: map[string][]byte{}})
	minExt := queryrange.VerifC42MinCacheExtent(mw)
	for i := 0; i < n; i++ {
		if r.Intn(4) == 0 {
			out = append(out, tinyMotif(r, minExt))
			continue
		}
		step := common.Pick(r, int64(1000), 5000, 10000, 15000, 30000, 60000, 7000)
		split := common.Pick(r, int64(3600000), 600000, 86400000, 1800000)
		base := common.Pick(r, int64(0), 3600000*5, 86400000*3-600000) + common.Between(r, 0, 40)*step
		span := common.Between(r, 4, 60) * step
		in := input{SplitMs: split, UseSplit: r.Intn(3) > 0}
		in.Series = genSeries(r, base, base+span, r.Intn(3) == 0)
		nq := 1 + r.Intn(maxQ)
		sameStep := r.Intn(4) > 0
		for j := 0; j < nq; j++ {
			st := step
			if !sameStep && r.Intn(2) == 0 {
				st = common.Pick(r, int64(5000), 10000, 15000, 30000, 60000, 120000)
			}
			a := base + common.Between(r, 0, span/st)*st
			b := a + common.Between(r, 0, (span/st)/2+2)*st
			if r.Intn(10) == 0 {
				b = a
			}
			if r.Intn(4) == 0 { // unaligned: the step-align middleware is part of the chain
				a += common.Between(r, 0, st-1)
				b += common.Between(r, 0, st-1)
				if b < a {
					b = a
				}
			}
			in.Queries = append(in.Queries, queryIn{Start: a, End: b, Step: st})
		}
		// often let a series (preferably the first) be born or die exactly at a query boundary
		if len(in.Series) > 0 && r.Intn(2) == 0 {
			q := in.Queries[r.Intn(len(in.Queries))]
			b := (q.Start / q.Step) * q.Step
			if r.Intn(3) == 0 {
				b = (q.End / q.Step) * q.Step
			}
			k := 0
			if r.Intn(4) == 0 {
				k = r.Intn(len(in.Series))
			}
			iv := [][2]int64{{base - 1000000, b}}
			if r.Intn(4) > 0 {
				iv = [][2]int64{{b, base + span + 1000000}}
			}
			if len(in.Series[k].Present) > 0 || len(in.Series[k].HPresent) == 0 {
				in.Series[k].Present = iv
			} else {
				in.Series[k].HPresent = iv
			}
		}
		scriptStorability(r, &in, base, base+span)
		out = append(out, in)
	}
	return out
}

// scriptStorability makes some fetched responses non-storable: the downstream answers
// Cache-Control: no-store for requests starting in an interval, or the query carries an @ modifier
// that lies beyond the end of some requests.
func scriptStorability(r *rand.Rand, in *input, lo, hi int64) {
	if r.Intn(4) == 0 {
		for k := 1 + r.Intn(2); k > 0; k-- {
			a := common.Between(r, lo, hi)
			in.NoStore = append(in.NoStore, [2]int64{a, a + common.Between(r, 0, (hi-lo)/3+1)})
		}
	}
	if r.Intn(5) == 0 {
		if at := common.Between(r, lo, hi); at > 0 {
			in.AtMs = at
		}
	}
}

func main() {
	common.Main(common.Prop{ID: "C42", Facts: facts, Gen: gen, Run: run, QuickN: 300, ThoroughN: 4000,
		Preamble: "Open Scope Z_scope.\n"})
}
