// C42: the results cache never changes query results.
package main

import (
	"context"
	"encoding/json"
	"fmt"
	"io"
	"math/rand"
	"regexp"
	"sort"
	"strconv"
	"sync"
	"time"

	"github.com/go-kit/log"
	"github.com/gogo/protobuf/proto"
	"github.com/gogo/protobuf/types"
	"github.com/weaveworks/common/user"

	"github.com/thanos-io/thanos/internal/cortex/chunk/cache"
	"github.com/thanos-io/thanos/internal/cortex/cortexpb"
	"github.com/thanos-io/thanos/internal/cortex/querier/queryrange"
	"github.com/thanos-io/thanos/pkg/queryfrontend"
	"github.com/thanos-io/thanos/zzverif/common"
)

type seriesIn struct {
	ID      int64      `json:"id"`
	Present [][2]int64 `json:"present"` // closed intervals in which the series has a value
}

type queryIn struct {
	Start int64 `json:"start"`
	End   int64 `json:"end"`
	Step  int64 `json:"step"`
}

type input struct {
	SplitMs  int64      `json:"split_ms"`
	UseSplit bool       `json:"use_split"`
	Series   []seriesIn `json:"series"`
	Queries  []queryIn  `json:"queries"`
	Note     string     `json:"note,omitempty"`
}

type limits struct{}

func (limits) MaxQueryLookback(string) time.Duration  { return 0 }
func (limits) MaxQueryLength(string) time.Duration    { return 0 }
func (limits) MaxQueryParallelism(string) int         { return 1 }
func (limits) MaxCacheFreshness(string) time.Duration { return 0 }

// mapCache is an in-memory cache.Cache.
type mapCache struct {
	mu sync.Mutex
	m  map[string][]byte
}

func (c *mapCache) Store(_ context.Context, keys []string, bufs [][]byte) {
	c.mu.Lock()
	defer c.mu.Unlock()
	for i := range keys {
		c.m[keys[i]] = bufs[i]
	}
}
func (c *mapCache) Fetch(_ context.Context, keys []string) (found []string, bufs [][]byte, missing []string) {
	c.mu.Lock()
	defer c.mu.Unlock()
	for _, k := range keys {
		if b, ok := c.m[k]; ok {
			found = append(found, k)
			bufs = append(bufs, b)
		} else {
			missing = append(missing, k)
		}
	}
	return
}
func (c *mapCache) Stop() {}

func facts(repo string, w io.Writer) error {
	s, err := common.ParseSrc(repo, "internal/cortex/querier/queryrange/results_cache.go")
	if err != nil {
		return err
	}
	d, err := s.TranslateFunc("isTimestampAtStep", common.TranslateOpts{})
	if err != nil {
		return err
	}
	// `end` is a Coq keyword: the parameter is renamed end_ (textual, whole identifiers only)
	d = regexp.MustCompile(`\bend\b`).ReplaceAllString(d, "end_")
	fmt.Fprintln(w, "(* internal/cortex/querier/queryrange/results_cache.go: isTimestampAtStep (parameter end renamed end_) *)")
	fmt.Fprintln(w, d)
	mw, _, err := newCacheMiddleware(&mapCache{m: map[string][]byte{}})
	if err != nil {
		return err
	}
	fmt.Fprintln(w, "(* resultsCache.minCacheExtent as constructed by NewResultsCacheMiddleware (value in the linked binary) *)")
	fmt.Fprintf(w, "Definition min_cache_extent : Z := %d.\n", queryrange.VerifC42MinCacheExtent(mw))
	fmt.Fprintln(w, "(* pkg/queryfrontend/cache.go: commonQuerySteps, in order *)")
	fmt.Fprintf(w, "Definition common_query_steps : list Z := %s.\n", common.ZList(queryfrontend.VerifC42CommonQuerySteps()))
	return nil
}

func newCacheMiddleware(c cache.Cache) (queryrange.Middleware, cache.Cache, error) {
	return queryrange.NewResultsCacheMiddleware(log.NewNopLogger(),
		queryrange.ResultsCacheConfig{CacheConfig: cache.Config{Cache: c}},
		queryfrontend.VerifC42CacheSplitter(), limits{}, queryfrontend.NewThanosQueryRangeCodec(false),
		queryrange.PrometheusResponseExtractor{}, nil, queryfrontend.VerifC42ShouldCache, nil)
}

func val(s, t int64) float64 { return float64(t*16 + s) }

func present(s seriesIn, t int64) bool {
	for _, iv := range s.Present {
		if iv[0] <= t && t <= iv[1] {
			return true
		}
	}
	return false
}

func sidLabel(id int64) string { return fmt.Sprintf("%03d", id) }

// downstream answers a range query from the series descriptions.
func downstream(series []seriesIn, calls *int) queryrange.Handler {
	return queryrange.HandlerFunc(func(_ context.Context, r queryrange.Request) (queryrange.Response, error) {
		*calls++
		var res []queryrange.SampleStream
		for _, s := range series {
			var smp []cortexpb.Sample
			for t := r.GetStart(); t <= r.GetEnd(); t += r.GetStep() {
				if present(s, t) {
					smp = append(smp, cortexpb.Sample{TimestampMs: t, Value: val(s.ID, t)})
				}
			}
			if len(smp) > 0 {
				res = append(res, queryrange.SampleStream{
					Labels:  []cortexpb.LabelAdapter{{Name: "__name__", Value: "m"}, {Name: "s", Value: sidLabel(s.ID)}},
					Samples: smp,
				})
			}
		}
		return &queryrange.PrometheusResponse{Status: queryrange.StatusSuccess,
			Data: queryrange.PrometheusData{ResultType: "matrix", Result: res}}, nil
	})
}

type obsStream struct {
	ID      int64      `json:"id"`
	Samples [][2]int64 `json:"samples"`
}

func matrixOf(resp queryrange.Response) ([]obsStream, error) {
	pr, ok := resp.(*queryrange.PrometheusResponse)
	if !ok {
		return nil, fmt.Errorf("response type %T", resp)
	}
	var out []obsStream
	for _, st := range pr.Data.Result {
		id := int64(-1)
		for _, l := range st.Labels {
			if l.Name == "s" {
				v, err := strconv.ParseInt(l.Value, 10, 64)
				if err != nil {
					return nil, err
				}
				id = v
			}
		}
		o := obsStream{ID: id}
		for _, s := range st.Samples {
			if s.Value != float64(int64(s.Value)) {
				return nil, fmt.Errorf("non-integral value")
			}
			o.Samples = append(o.Samples, [2]int64{s.TimestampMs, int64(s.Value)})
		}
		if len(st.Histograms) > 0 {
			return nil, fmt.Errorf("unexpected histograms")
		}
		out = append(out, o)
	}
	return out, nil
}

func coqMatrix(m []obsStream) string {
	var ss []string
	for _, st := range m {
		var ps []string
		for _, p := range st.Samples {
			ps = append(ps, common.Pair(common.Z(p[0]), common.Z(p[1])))
		}
		ss = append(ss, common.Pair(common.Z(st.ID), common.List(ps)))
	}
	return common.List(ss)
}

type obsExtent struct {
	Start, End int64
	M          []obsStream
}
type obsKey struct {
	Step, Window int64
	Extents      []obsExtent
}

// keyRecorder sits in front of the cache middleware and remembers which (step, window) each key string stands for.
type keyRecorder struct {
	next queryrange.Handler
	keys map[string][2]int64
	uid  string
}

func (k *keyRecorder) Do(ctx context.Context, r queryrange.Request) (queryrange.Response, error) {
	split := r.(queryfrontend.SplitRequest).GetSplitInterval().Milliseconds()
	k.keys[queryfrontend.VerifC42CacheSplitter().GenerateCacheKey(k.uid, r)] = [2]int64{r.GetStep(), r.GetStart() / split}
	return k.next.Do(ctx, r)
}

func run(raw json.RawMessage) (common.Case, error) {
	var in input
	if err := json.Unmarshal(raw, &in); err != nil {
		return common.Case{}, err
	}
	var c common.Case
	if in.SplitMs <= 0 || len(in.Queries) == 0 {
		return c, fmt.Errorf("bad input")
	}
	sort.Slice(in.Series, func(i, j int) bool { return in.Series[i].ID < in.Series[j].ID })
	mc := &mapCache{m: map[string][]byte{}}
	mw, _, err := newCacheMiddleware(mc)
	if err != nil {
		return c, err
	}
	calls := 0
	const uid = "t"
	rec := &keyRecorder{keys: map[string][2]int64{}, uid: uid}
	rec.next = mw.Wrap(downstream(in.Series, &calls))
	var h queryrange.Handler = rec
	interval := time.Duration(in.SplitMs) * time.Millisecond
	codec := queryfrontend.NewThanosQueryRangeCodec(false)
	if in.UseSplit {
		h = queryfrontend.SplitByIntervalMiddleware(func(queryrange.Request) time.Duration { return interval }, limits{}, codec, nil).Wrap(h)
	}
	h = queryrange.StepAlignMiddleware.Wrap(h)
	ctx := user.InjectOrgID(context.Background(), uid)

	var resps [][]obsStream
	var coqResps []string
	wrong := -1
	for i, q := range in.Queries {
		if q.Step <= 0 || q.End < q.Start {
			return c, fmt.Errorf("bad query")
		}
		req := &queryfrontend.ThanosQueryRangeRequest{Path: "/api/v1/query_range", Start: q.Start, End: q.End, Step: q.Step, Query: "m", Dedup: true, SplitInterval: interval}
		resp, err := h.Do(ctx, req)
		if err != nil {
			return c, err
		}
		m, err := matrixOf(resp)
		if err != nil {
			return c, err
		}
		resps = append(resps, m)
		coqResps = append(coqResps, coqMatrix(m))
		// Go-side predicate: compare with direct evaluation of the aligned query
		s, e := (q.Start/q.Step)*q.Step, (q.End/q.Step)*q.Step
		n := 0
		dresp, _ := downstream(in.Series, &n).Do(ctx, req.WithStartEnd(s, e))
		dm, _ := matrixOf(dresp)
		if wrong < 0 && fmt.Sprint(dm) != fmt.Sprint(m) {
			wrong = i
		}
	}
	// final cache content
	var ks []obsKey
	for _, buf := range mc.m {
		var cr queryrange.CachedResponse
		if err := proto.Unmarshal(buf, &cr); err != nil {
			return c, err
		}
		sw, ok := rec.keys[cr.Key]
		if !ok {
			return c, fmt.Errorf("cache holds an unknown key %q", cr.Key)
		}
		k := obsKey{Step: sw[0], Window: sw[1]}
		for _, e := range cr.Extents {
			msg, err := types.EmptyAny(e.Response)
			if err != nil {
				return c, err
			}
			if err := types.UnmarshalAny(e.Response, msg); err != nil {
				return c, err
			}
			m, err := matrixOf(msg.(queryrange.Response))
			if err != nil {
				return c, err
			}
			k.Extents = append(k.Extents, obsExtent{e.Start, e.End, m})
		}
		ks = append(ks, k)
	}
	sort.Slice(ks, func(i, j int) bool {
		if ks[i].Step != ks[j].Step {
			return ks[i].Step < ks[j].Step
		}
		return ks[i].Window < ks[j].Window
	})
	var coqCache []string
	for _, k := range ks {
		var es []string
		for _, e := range k.Extents {
			es = append(es, common.Tuple(common.Z(e.Start), common.Z(e.End), coqMatrix(e.M)))
		}
		coqCache = append(coqCache, common.Pair(common.Pair(common.Z(k.Step), common.Z(k.Window)), common.List(es)))
	}
	var sd, qs []string
	for _, s := range in.Series {
		var iv []string
		for _, p := range s.Present {
			iv = append(iv, common.Pair(common.Z(p[0]), common.Z(p[1])))
		}
		sd = append(sd, common.Pair(common.Z(s.ID), common.List(iv)))
	}
	for _, q := range in.Queries {
		qs = append(qs, common.Tuple(common.Z(q.Start), common.Z(q.End), common.Z(q.Step)))
	}
	c.Coq = common.App("CHist", common.Z(in.SplitMs), common.Bool(in.UseSplit), common.List(sd), common.List(qs), common.List(coqResps), common.List(coqCache))
	c.Obs = map[string]any{"responses": resps, "cache": ks, "downstream_calls": calls}
	c.Class = fmt.Sprintf("queries=%d split=%v", len(in.Queries), in.UseSplit)
	if in.Note != "" {
		c.Class = in.Note + " " + c.Class
	}
	c.Nontrivial = len(in.Queries) >= 2 && len(ks) > 0
	if wrong >= 0 {
		c.GoPred = fmt.Sprintf("answer %d (query %+v) differs from direct evaluation", wrong, in.Queries[wrong])
		c.Sig = classify(in, wrong)
	}
	return c, nil
}

// classify names the failing situation narrowly (for known findings).
func classify(in input, i int) string {
	q := in.Queries[i]
	// an earlier query with a smaller step that divides this one: the lower-step cache path
	for _, p := range in.Queries[:i] {
		if p.Step < q.Step && q.Step%p.Step == 0 {
			for _, cs := range queryfrontend.VerifC42LowerStepCacheCandidates(q.Step) {
				if cs == p.Step {
					return "lower-step-offgrid"
				}
			}
		}
	}
	return "wrong-answer"
}

// ---- generators ----

func genSeries(r *rand.Rand, lo, hi int64, dense bool) []seriesIn {
	n := 1 + r.Intn(4)
	var out []seriesIn
	for i := 0; i < n; i++ {
		s := seriesIn{ID: int64(i*2 + r.Intn(2))}
		if dense || r.Intn(3) == 0 {
			s.Present = [][2]int64{{lo - 1000000, hi + 1000000}}
		} else {
			k := 1 + r.Intn(3)
			for j := 0; j < k; j++ {
				a := common.Between(r, lo, hi)
				b := a + common.Between(r, 0, (hi-lo)/2+1)
				s.Present = append(s.Present, [2]int64{a, b})
			}
		}
		out = append(out, s)
	}
	return out
}

func gen(r *rand.Rand, tier string, n int) []any {
	var out []any
	maxQ := 6
	if tier == "thorough" {
		maxQ = 8
	}
	for i := 0; i < n; i++ {
		step := common.Pick(r, int64(1000), 5000, 10000, 15000, 30000, 60000, 7000)
		split := common.Pick(r, int64(3600000), 600000, 86400000, 1800000)
		base := common.Pick(r, int64(0), 3600000*5, 86400000*3-600000) + common.Between(r, 0, 40)*step
		span := common.Between(r, 4, 60) * step
		in := input{SplitMs: split, UseSplit: r.Intn(3) > 0}
		in.Series = genSeries(r, base, base+span, r.Intn(3) == 0)
		nq := 1 + r.Intn(maxQ)
		sameStep := r.Intn(4) > 0
		for j := 0; j < nq; j++ {
			st := step
			if !sameStep && r.Intn(2) == 0 {
				st = common.Pick(r, int64(5000), 10000, 15000, 30000, 60000, 120000)
			}
			a := base + common.Between(r, 0, span/st)*st
			b := a + common.Between(r, 0, (span/st)/2+2)*st
			if r.Intn(10) == 0 {
				b = a
			}
			if r.Intn(4) == 0 { // unaligned: the step-align middleware is part of the chain
				a += common.Between(r, 0, st-1)
				b += common.Between(r, 0, st-1)
				if b < a {
					b = a
				}
			}
			in.Queries = append(in.Queries, queryIn{Start: a, End: b, Step: st})
		}
		// often let a series (preferably the first) be born or die exactly at a query boundary
		if len(in.Series) > 0 && r.Intn(2) == 0 {
			q := in.Queries[r.Intn(len(in.Queries))]
			b := (q.Start / q.Step) * q.Step
			if r.Intn(3) == 0 {
				b = (q.End / q.Step) * q.Step
			}
			k := 0
			if r.Intn(4) == 0 {
				k = r.Intn(len(in.Series))
			}
			if r.Intn(4) > 0 {
				in.Series[k].Present = [][2]int64{{b, base + span + 1000000}}
			} else {
				in.Series[k].Present = [][2]int64{{base - 1000000, b}}
			}
		}
		out = append(out, in)
	}
	return out
}

func main() {
	common.Main(common.Prop{ID: "C42", Facts: facts, Gen: gen, Run: run, QuickN: 300, ThoroughN: 4000,
		Preamble: "Open Scope Z_scope.\n"})
}
