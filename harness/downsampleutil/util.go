// Package downsampleutil holds the harness pieces shared by the downsampling
// properties C36, C37 and C38: input types, generators, decoding of aggregate
// chunks into integer sample lists and their Coq renderings.
package downsampleutil

import (
	"fmt"
	"go/ast"
	"go/token"
	"io"
	"math"
	"math/rand"
	"strings"

	"github.com/prometheus/prometheus/model/histogram"
	"github.com/prometheus/prometheus/model/value"
	"github.com/prometheus/prometheus/tsdb/chunkenc"
	"github.com/prometheus/prometheus/tsdb/chunks"

	"github.com/thanos-io/thanos/pkg/compact/downsample"
	"github.com/thanos-io/thanos/zzverif/common"
)

// RawS is one raw input sample. K: "" (value V), "nan", "stale".
type RawS struct {
	T int64  `json:"t"`
	V int64  `json:"v,omitempty"`
	K string `json:"k,omitempty"`
}

// S is one decoded aggregate sample with an integer value.
type S struct {
	T int64 `json:"t"`
	V int64 `json:"v"`
}

// Chunk is a decoded aggregate chunk. A nil slice with Has[i]=false is an
// absent aggregate.
type Chunk struct {
	Mint, Maxt                    int64
	Count, Sum, Min, Max, Counter []S
	Has                           [5]bool
}

// ToInt converts an integer-valued float64 below 2^53 exactly.
func ToInt(v float64) (int64, error) {
	if math.IsNaN(v) || math.IsInf(v, 0) || v != math.Trunc(v) || math.Abs(v) >= 1<<53 {
		return 0, fmt.Errorf("value %v is not an exactly representable integer", v)
	}
	return int64(v), nil
}

func decodeXOR(c chunkenc.Chunk) ([]S, error) {
	var out []S
	it := c.Iterator(nil)
	for it.Next() != chunkenc.ValNone {
		t, v := it.At()
		z, err := ToInt(v)
		if err != nil {
			return nil, err
		}
		out = append(out, S{t, z})
	}
	return out, it.Err()
}

// DecodeAggr decodes the five aggregates of one AggrChunk.
func DecodeAggr(mint, maxt int64, ac *downsample.AggrChunk) (Chunk, error) {
	k := Chunk{Mint: mint, Maxt: maxt}
	dst := []*[]S{&k.Count, &k.Sum, &k.Min, &k.Max, &k.Counter}
	for i, t := range []downsample.AggrType{downsample.AggrCount, downsample.AggrSum, downsample.AggrMin, downsample.AggrMax, downsample.AggrCounter} {
		c, err := ac.Get(t)
		if err == downsample.ErrAggrNotExist {
			continue
		}
		if err != nil {
			return k, fmt.Errorf("Get(%v): %w", t, err)
		}
		ss, err := decodeXOR(c)
		if err != nil {
			return k, fmt.Errorf("aggregate %v: %w", t, err)
		}
		*dst[i] = ss
		k.Has[i] = true
	}
	return k, nil
}

func DecodeMetas(metas []chunks.Meta) ([]Chunk, error) {
	var out []Chunk
	for _, m := range metas {
		ac, ok := m.Chunk.(*downsample.AggrChunk)
		if !ok {
			return nil, fmt.Errorf("chunk is %T, not *AggrChunk", m.Chunk)
		}
		k, err := DecodeAggr(m.MinTime, m.MaxTime, ac)
		if err != nil {
			return nil, err
		}
		out = append(out, k)
	}
	return out, nil
}

// ---- Coq rendering (cases.v opens Z_scope) ----

func z(v int64) string {
	if v < 0 {
		return fmt.Sprintf("(%d)", v)
	}
	return fmt.Sprintf("%d", v)
}

// Zs renders an int64 for a cases.v that opened Z_scope.
func Zs(v int64) string { return z(v) }

func SamplesCoq(ss []S) string {
	parts := make([]string, len(ss))
	for i, s := range ss {
		parts[i] = "(sp " + z(s.T) + " " + z(s.V) + ")"
	}
	return "[" + strings.Join(parts, ";") + "]"
}

func RawCoq(ss []RawS) string {
	parts := make([]string, len(ss))
	for i, s := range ss {
		if s.K == "" {
			parts[i] = "(rs " + z(s.T) + " " + z(s.V) + ")"
		} else {
			parts[i] = "(rn " + z(s.T) + ")"
		}
	}
	return "[" + strings.Join(parts, ";") + "]"
}

func optSamples(has bool, ss []S) string {
	if !has {
		return "None"
	}
	return "(Some " + SamplesCoq(ss) + ")"
}

func ChunkCoq(k Chunk) string {
	return common.App("mkC", z(k.Mint), z(k.Maxt), optSamples(k.Has[0], k.Count), optSamples(k.Has[1], k.Sum),
		optSamples(k.Has[2], k.Min), optSamples(k.Has[3], k.Max), optSamples(k.Has[4], k.Counter))
}

func ChunksCoq(ks []Chunk) string {
	parts := make([]string, len(ks))
	for i, k := range ks {
		parts[i] = ChunkCoq(k)
	}
	return "[" + strings.Join(parts, ";\n ") + "]"
}

// ---- tie T ----

// WindowFacts writes currentWindow (translated from the source) and the
// resolution constants of the linked package.
func WindowFacts(repo string, w io.Writer) error {
	s, err := common.ParseSrc(repo, "pkg/compact/downsample/downsample.go")
	if err != nil {
		return err
	}
	d, err := s.TranslateFunc("currentWindow", common.TranslateOpts{})
	if err != nil {
		return err
	}
	fmt.Fprintln(w, "(* pkg/compact/downsample/downsample.go: currentWindow *)")
	fmt.Fprintln(w, d)
	// one-line decisions: the batch sizes of the two loops
	for _, f := range []struct{ fn, coq, arg string }{
		{"downsampleRawLoop", "raw_batch_size", "data"},
		{"downsampleAggrLoop", "aggr_batch_size", "chks"},
	} {
		e, err := s.RHS(f.fn, "batchSize")
		if err != nil {
			return err
		}
		x, err := s.TranslateExpr(e, nil, map[string]string{"len": "len_of"})
		if err != nil {
			return err
		}
		fmt.Fprintf(w, "(* %s: batchSize := %s *)\n", f.fn, s.ExprString(e))
		fmt.Fprintf(w, "Definition %s (len_%s numChunks : Z) : Z :=\n  let len_of := fun _ : Z => len_%s in let %s := 0 in\n  %s.\n\n", f.coq, f.arg, f.arg, f.arg, x)
	}
	// one-line decision: the comparison of the batch-extension loop of downsampleRawLoop
	// (`for ; j < len(data) && data[j].t <= curW; j++ {}`), operator taken from the source
	op, cond, err := extensionLoopCmp(s)
	if err != nil {
		return err
	}
	fmt.Fprintf(w, "(* downsampleRawLoop: extension loop condition: %s *)\n", cond)
	fmt.Fprintf(w, "Definition ext_take (t curW : Z) : bool := (t %s curW).\n\n", op)
	fmt.Fprintf(w, "Definition ResLevel1 : Z := %d.\n", downsample.ResLevel1)
	fmt.Fprintf(w, "Definition ResLevel2 : Z := %d.\n", downsample.ResLevel2)
	return nil
}

// extensionLoopCmp finds, in downsampleRawLoop, the for loop without body whose condition is
// `j < len(data) && data[j].t OP curW` and returns OP as a Coq boolean comparison on Z.
func extensionLoopCmp(s *common.SrcFile) (op, cond string, err error) {
	fd, err := s.FindFunc("downsampleRawLoop")
	if err != nil {
		return "", "", err
	}
	ast.Inspect(fd.Body, func(n ast.Node) bool {
		fs, ok := n.(*ast.ForStmt)
		if !ok || fs.Cond == nil || op != "" {
			return true
		}
		and, ok := fs.Cond.(*ast.BinaryExpr)
		if !ok || and.Op != token.LAND {
			return true
		}
		cmp, ok := and.Y.(*ast.BinaryExpr)
		if !ok || s.ExprString(cmp.X) != "data[j].t" || s.ExprString(cmp.Y) != "curW" {
			return true
		}
		switch cmp.Op {
		case token.LEQ:
			op = "<=?"
		case token.LSS:
			op = "<?"
		case token.GEQ:
			op = ">=?"
		case token.GTR:
			op = ">?"
		case token.EQL:
			op = "=?"
		}
		cond = s.ExprString(fs.Cond)
		return true
	})
	if op == "" {
		return "", "", fmt.Errorf("srcfacts: downsampleRawLoop: extension loop `data[j].t <op> curW` not found")
	}
	return op, cond, nil
}

// GenWindowEnds draws a series with k samples per window of resolution res, the last of them
// exactly on the window's last millisecond (t = res-1 mod res), for nWin consecutive windows
// (some skipped): wherever downsampleRawLoop cuts a batch, the rest of the window — ending with
// a sample ON the inclusive window end — has to be pulled into the batch.
func GenWindowEnds(r *rand.Rand, res int64, nWin int) []RawS {
	base := common.Pick(r, int64(0), 7, 1600000000000/res) * res
	var out []RawS
	for w := 0; w < nWin; w++ {
		start := base + int64(w)*res
		if res >= 4 && r.Intn(12) == 0 {
			continue // empty window
		}
		k := 1 + r.Intn(3)
		if res < 4 {
			k = 1
		}
		var ts []int64
		for i := 0; i < k-1; i++ {
			ts = append(ts, start+1+r.Int63n(res-2))
		}
		for i := range ts { // sort the few in-window offsets
			for j := i + 1; j < len(ts); j++ {
				if ts[j] < ts[i] {
					ts[i], ts[j] = ts[j], ts[i]
				}
			}
		}
		prev := int64(-1)
		for _, t := range ts {
			if t == prev {
				continue
			}
			prev = t
			s := RawS{T: t, V: int64(r.Intn(2001)) - 1000}
			if r.Intn(15) == 0 {
				s.V, s.K = 0, "nan"
			}
			out = append(out, s)
		}
		out = append(out, RawS{T: start + res - 1, V: int64(r.Intn(2001)) - 1000})
	}
	return out
}

// ---- generators ----

// ValidRaw: timestamps non-negative and strictly increasing.
func ValidRaw(ss []RawS) bool {
	for i, s := range ss {
		if s.T < 0 || (i > 0 && ss[i-1].T >= s.T) {
			return false
		}
	}
	return true
}

func GenRes(r *rand.Rand) int64 {
	switch k := r.Intn(10); {
	case k < 5:
		return downsample.ResLevel1
	case k < 8:
		return downsample.ResLevel2
	default:
		return common.Pick(r, int64(1000), 10, 7, 60000, 1)
	}
}

// GenRaw draws a raw series. counter=true makes the values a counter with
// occasional resets (otherwise a gauge with negative values).
func GenRaw(r *rand.Rand, tier string, res int64, counter bool) []RawS {
	n := 1 + r.Intn(60)
	switch k := r.Intn(20); {
	case k < 3:
		n = 1 + r.Intn(4)
	case k < 6:
		n = 100 + r.Intn(200)
	case k < 8 && res != downsample.ResLevel2:
		n = 720 + r.Intn(500) // enough for more than one chunk at 5m
	}
	if tier == "thorough" && r.Intn(60) == 0 && res == downsample.ResLevel2 {
		// more than one chunk at 1h; only at 1h so that the number of output rows stays
		// small (the predicates evaluated in Coq are quadratic in rows x samples)
		n = 8500 + r.Intn(1000)
	}
	base := common.Pick(r, int64(0), 1, 299999, 300000, 1600000000000, 1600000000123, 3599999)
	step := common.Pick(r, int64(15000), 30000, 60000, 60000, 10000, 1000)
	if res < 60000 {
		step = common.Pick(r, int64(1), 2, 3, res, res/2+1, 5*res)
		if r.Intn(3) == 0 { // one sample per window, enough windows for several chunks
			n = 150 + r.Intn(300)
			step = common.Pick(r, res, 2*res, res+1)
		}
	}
	jitter := common.Pick(r, int64(0), 0, 1, step/3)
	gapP := common.Pick(r, 0, 0, 20, 5)
	nanP := common.Pick(r, 0, 0, 10, 3, 2)
	t := base
	v := int64(r.Intn(1000))
	if !counter {
		v -= 500
	}
	out := make([]RawS, 0, n)
	for i := 0; i < n; i++ {
		s := RawS{T: t, V: v}
		if nanP > 0 && r.Intn(nanP) == 0 {
			s.V = 0
			s.K = common.Pick(r, "nan", "stale")
		}
		out = append(out, s)
		// next timestamp
		d := step
		if jitter > 0 {
			d += r.Int63n(2*jitter+1) - jitter
		}
		if d < 1 {
			d = 1
		}
		if gapP > 0 && r.Intn(gapP) == 0 {
			d += common.Pick(r, res, 2*res, res/2, 7*res+13, 1)
		}
		t += d
		if r.Intn(25) == 0 { // land exactly on / next to a window boundary
			t = (t/res+1)*res + common.Pick(r, int64(-1), 0, 1)
		}
		// next value
		if counter {
			switch k := r.Intn(20); {
			case k == 0:
				v = int64(r.Intn(5)) // reset
			case k < 4:
				// unchanged
			default:
				v += int64(r.Intn(100))
			}
		} else {
			v = int64(r.Intn(2001)) - 1000
			if r.Intn(10) == 0 {
				v = int64(r.Intn(2000000001)) - 1000000000
			}
		}
	}
	// occasionally an ill-formed series (checked for model = implementation only)
	if len(out) >= 3 && r.Intn(25) == 0 {
		i := 1 + r.Intn(len(out)-1)
		switch r.Intn(3) {
		case 0:
			out[i].T = out[i-1].T
		case 1:
			out[i].T = out[i-1].T - 1 - r.Int63n(res+1)
		default:
			for j := range out {
				out[j].T -= out[len(out)/2].T
			}
		}
	}
	return out
}

type fsample struct {
	t int64
	v float64
}

func (s fsample) T() int64                      { return s.t }
func (s fsample) F() float64                    { return s.v }
func (s fsample) H() *histogram.Histogram       { return nil }
func (s fsample) FH() *histogram.FloatHistogram { return nil }
func (s fsample) Type() chunkenc.ValueType      { return chunkenc.ValFloat }
func (s fsample) Copy() chunks.Sample           { return s }

// TSDBSamples converts the input samples (NaN / stale markers included).
func TSDBSamples(in []RawS) []chunks.Sample {
	var ss []chunks.Sample
	for _, s := range in {
		v := float64(s.V)
		switch s.K {
		case "nan":
			v = math.NaN()
		case "stale":
			v = math.Float64frombits(value.StaleNaN)
		}
		ss = append(ss, fsample{s.T, v})
	}
	return ss
}

// GenDense draws n samples, about one per window of resolution res (gauge values).
func GenDense(r *rand.Rand, res int64, n int) []RawS {
	t := common.Pick(r, int64(0), 5, 1000000)
	out := make([]RawS, 0, n)
	for i := 0; i < n; i++ {
		out = append(out, RawS{T: t, V: int64(r.Intn(2001)) - 1000})
		t += common.Pick(r, res, res, res+1, 2*res, (res+1)/2)
	}
	return out
}

// GenDenseCounter draws n counter samples, about one per window, with resets.
func GenDenseCounter(r *rand.Rand, res int64, n int) []RawS {
	t := common.Pick(r, int64(0), 5, 1000000)
	v := int64(r.Intn(100))
	out := make([]RawS, 0, n)
	for i := 0; i < n; i++ {
		out = append(out, RawS{T: t, V: v})
		t += common.Pick(r, res, res, res+1, 2*res, (res+1)/2)
		if r.Intn(15) == 0 {
			v = int64(r.Intn(3))
		} else {
			v += int64(r.Intn(50))
		}
	}
	return out
}
