// C01: penalty replica deduplication yields a well-formed merge of replica samples.
package main

import (
	"encoding/json"
	"fmt"
	"io"
	"math/rand"

	"github.com/prometheus/prometheus/model/labels"
	"github.com/prometheus/prometheus/storage"

	"github.com/thanos-io/thanos/pkg/dedup"
	"github.com/thanos-io/thanos/zzverif/common"
	du "github.com/thanos-io/thanos/zzverif/deduputil"
)

type input struct {
	Replicas [][]du.Sample `json:"replicas"`
	Ops      []du.Op       `json:"ops"`
}

func facts(repo string, w io.Writer) error { return du.IterFacts(repo, w) }

func dedupSeries(reps [][]du.Sample, f string) (storage.Series, error) {
	lset := labels.FromStrings("__name__", "m", "job", "j")
	var ss []storage.Series
	for _, r := range reps {
		s, err := du.NewSeries(lset, r)
		if err != nil {
			return nil, err
		}
		ss = append(ss, s)
	}
	set := dedup.NewSeriesSet(du.SeriesSet(ss), f, dedup.AlgorithmPenalty)
	if !set.Next() {
		return nil, fmt.Errorf("dedup series set is empty")
	}
	s := set.At()
	if set.Next() {
		return nil, fmt.Errorf("dedup series set returned more than one series for one label set")
	}
	return s, nil
}

func run(raw json.RawMessage) (common.Case, error) {
	var in input
	if err := json.Unmarshal(raw, &in); err != nil {
		return common.Case{}, err
	}
	var c common.Case
	if len(in.Replicas) == 0 || len(in.Replicas) > 6 {
		return c, fmt.Errorf("need 1..6 replicas")
	}
	total := 0
	wellFormed := true
	for _, r := range in.Replicas {
		total += len(r)
		for i, s := range r {
			if !du.IsInt(s.V()) {
				return c, fmt.Errorf("C01 uses integer-valued samples")
			}
			if i > 0 && s.T() <= r[i-1].T() {
				wellFormed = false
			}
		}
	}
	s, err := dedupSeries(in.Replicas, "")
	if err != nil {
		return c, err
	}
	full, ok := du.Drain(s.Iterator(nil), total+5)
	if !ok {
		c.GoPred = "draining the deduplicated series yields more samples than all replicas hold"
		c.Sig = "runaway"
	}
	done, obs := du.RunOps(s.Iterator(nil), in.Ops)

	c.Coq = common.App("Case", du.CoqReplicas(in.Replicas), du.CoqOps(done), du.CoqObsSamples(full), du.CoqObsList(obs))
	c.Obs = map[string]any{"full": full, "reader": obs}
	nseek := 0
	for _, o := range done {
		if o.K == "s" {
			nseek++
		}
	}
	nonEmpty := 0
	for _, r := range in.Replicas {
		if len(r) > 0 {
			nonEmpty++
		}
	}
	c.Nontrivial = nonEmpty >= 2 && len(full) >= 2
	switch {
	case !wellFormed:
		c.Class = "malformed-replica"
	case len(in.Replicas) == 1:
		c.Class = "single"
	case nseek == 0:
		c.Class = fmt.Sprintf("r%d-drain", len(in.Replicas))
	case len(done) > 0 && done[0].K == "s":
		c.Class = fmt.Sprintf("r%d-seekfirst", len(in.Replicas))
	default:
		c.Class = fmt.Sprintf("r%d-mixed", len(in.Replicas))
	}
	if c.GoPred != "" || !wellFormed {
		return c, nil
	}
	// Go-side predicate (search aid; the deciding one is C01.pred_ok in Coq)
	for i, o := range full {
		if i > 0 && o.T <= full[i-1].T {
			c.GoPred, c.Sig = fmt.Sprintf("timestamps not strictly increasing: %d after %d", o.T, full[i-1].T), "not-increasing"
			return c, nil
		}
		found := false
		for _, r := range in.Replicas {
			for _, sm := range r {
				if sm.T() == o.T && sm.V() == o.V {
					found = true
				}
			}
		}
		if !found {
			c.GoPred, c.Sig = fmt.Sprintf("sample (%d,%v) is held by no replica", o.T, o.V), "provenance"
			return c, nil
		}
	}
	identical := true
	for _, r := range in.Replicas[1:] {
		if fmt.Sprint(r) != fmt.Sprint(in.Replicas[0]) {
			identical = false
		}
	}
	if identical {
		if len(full) != len(in.Replicas[0]) {
			c.GoPred, c.Sig = "identical replicas do not come out unchanged", "identity"
			return c, nil
		}
		for i, o := range full {
			if o.T != in.Replicas[0][i].T() || o.V != in.Replicas[0][i].V() {
				c.GoPred, c.Sig = "identical replicas do not come out unchanged", "identity"
				return c, nil
			}
		}
	}
	// the reader must see what a reader of the plain list `full` sees
	cur, fut := -1, 0 // index of current sample in full (or -1), index of next
	started := false
	_ = started
	for i, o := range done {
		var idx int
		if o.K == "n" {
			idx = fut
		} else {
			idx = fut
			if cur >= 0 {
				idx = cur
			}
			for idx < len(full) && full[idx].T < o.T {
				idx++
			}
		}
		var want du.Obs
		if idx < len(full) {
			want = full[idx]
			cur, fut = idx, idx+1
		} else {
			cur, fut = -1, len(full)
		}
		if want != obs[i] {
			c.GoPred = fmt.Sprintf("reader call #%d (%s %d) saw %+v, a reader of the fully iterated series sees %+v", i, o.K, o.T, obs[i], want)
			c.Sig = "reader-differs"
			if i == 0 && o.K == "s" {
				c.Sig = "seek-before-next"
			} else if nseek > 0 && done[0].K == "s" {
				c.Sig = "seek-before-next"
			}
			return c, nil
		}
	}
	return c, nil
}

func gen(r *rand.Rand, tier string, n int) []any {
	maxLen := 40
	if tier == "thorough" {
		maxLen = 120
	}
	var out []any
	for i := 0; i < n; i++ {
		reps := du.Layout(r, 4, maxLen, false)
		out = append(out, input{Replicas: reps, Ops: du.Program(r, reps)})
	}
	return out
}

func main() {
	common.Main(common.Prop{ID: "C01", Facts: facts, Gen: gen, Run: run, QuickN: 500, ThoroughN: 2500,
		Preamble: "From Verif Require Import Lib.Dedup_Iter.\nOpen Scope Z_scope.\n"})
}
