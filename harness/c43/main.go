// C43: results-cache keys separate tenants and result-changing parameters.
package main

import (
	"context"
	"encoding/json"
	"fmt"
	"io"
	"math/rand"
	"sort"
	"strings"
	"time"

	"github.com/prometheus/prometheus/model/labels"
	"github.com/weaveworks/common/user"

	"github.com/thanos-io/thanos/internal/cortex/querier/queryrange"
	"github.com/thanos-io/thanos/internal/cortex/tenant"
	"github.com/thanos-io/thanos/pkg/queryfrontend"
	"github.com/thanos-io/thanos/pkg/store/storepb"
	"github.com/thanos-io/thanos/zzverif/common"
)

type matcherIn struct {
	Type  int    `json:"type"` // 0 = 1 != 2 =~ 3 !~
	Name  string `json:"name"`
	Value string `json:"value"`
}

type reqIn struct {
	Kind     string        `json:"kind"` // range | labels | series
	Tenant   string        `json:"tenant"`
	Query    string        `json:"query,omitempty"`
	Start    int64         `json:"start"`
	Step     int64         `json:"step,omitempty"`
	SplitMs  int64         `json:"split_ms"`
	MSR      int64         `json:"max_source_resolution,omitempty"`
	Shard    *[2]int64     `json:"shard,omitempty"` // total, index
	Lookback int64         `json:"lookback,omitempty"`
	Engine   string        `json:"engine,omitempty"`
	Partial  bool          `json:"partial"`
	Replicas []string      `json:"replicas,omitempty"`
	Analyze  bool          `json:"analyze,omitempty"`
	Label    string        `json:"label,omitempty"`
	Matchers [][]matcherIn `json:"matchers,omitempty"`
}

type input struct {
	Kind   string `json:"kind"` // pair | tenant
	A      *reqIn `json:"a,omitempty"`
	B      *reqIn `json:"b,omitempty"`
	Tenant string `json:"tenant,omitempty"`
	Note   string `json:"note,omitempty"`
}

func facts(repo string, w io.Writer) error {
	fmt.Fprintln(w, "(* pkg/queryfrontend/cache.go: newThanosCacheKeyGenerator().resolutions, in scan order (values the harness binary links against) *)")
	fmt.Fprintf(w, "Definition key_resolutions : list Z := %s.\n", common.ZList(queryfrontend.VerifC43Resolutions()))
	return nil
}

func buildMatchers(ms [][]matcherIn) ([][]*labels.Matcher, error) {
	var out [][]*labels.Matcher
	for _, set := range ms {
		var s []*labels.Matcher
		for _, m := range set {
			lm, err := labels.NewMatcher(labels.MatchType(m.Type), m.Name, m.Value)
			if err != nil {
				return nil, err
			}
			s = append(s, lm)
		}
		out = append(out, s)
	}
	return out, nil
}

func build(in *reqIn) (queryrange.Request, string, error) {
	split := time.Duration(in.SplitMs) * time.Millisecond
	switch in.Kind {
	case "range":
		r := &queryfrontend.ThanosQueryRangeRequest{
			Query: in.Query, Start: in.Start, End: in.Start + 10*in.Step, Step: in.Step, Dedup: true,
			MaxSourceResolution: in.MSR, LookbackDelta: in.Lookback, Engine: in.Engine,
			PartialResponse: in.Partial, ReplicaLabels: in.Replicas, Analyze: in.Analyze, SplitInterval: split,
		}
		if in.Shard != nil {
			r.ShardInfo = &storepb.ShardInfo{TotalShards: in.Shard[0], ShardIndex: in.Shard[1]}
		}
		return r, "", nil
	case "labels":
		ms, err := buildMatchers(in.Matchers)
		if err != nil {
			return nil, "", err
		}
		return &queryfrontend.ThanosLabelsRequest{Label: in.Label, Matchers: ms, Start: in.Start, End: in.Start + 1, PartialResponse: in.Partial, SplitInterval: split},
			fmt.Sprintf("%s", ms), nil
	case "series":
		ms, err := buildMatchers(in.Matchers)
		if err != nil {
			return nil, "", err
		}
		return &queryfrontend.ThanosSeriesRequest{Matchers: ms, Start: in.Start, End: in.Start + 1, Dedup: true, PartialResponse: in.Partial, ReplicaLabels: in.Replicas, SplitInterval: split},
			fmt.Sprintf("%s", ms), nil
	}
	return nil, "", fmt.Errorf("bad request kind %q", in.Kind)
}

func strs(xs []string) string {
	out := make([]string, len(xs))
	for i, x := range xs {
		out[i] = common.Bytes(x)
	}
	return common.List(out)
}

func coqReq(in *reqIn, rendered string) string {
	switch in.Kind {
	case "range":
		sh := common.None
		if in.Shard != nil {
			sh = common.Some(common.Pair(common.Z(in.Shard[0]), common.Z(in.Shard[1])))
		}
		return common.App("RRange", common.Bytes(in.Query), common.Z(in.Start), common.Z(in.Step), common.Z(in.SplitMs), common.Z(in.MSR),
			sh, common.Z(in.Lookback), common.Bytes(in.Engine), common.Bool(in.Partial), strs(in.Replicas), common.Bool(in.Analyze))
	case "labels":
		return common.App("RLabels", common.Bytes(in.Label), common.Bytes(rendered), common.Z(in.Start), common.Z(in.SplitMs), common.Bool(in.Partial))
	default:
		return common.App("RSeries", common.Bytes(rendered), common.Z(in.Start), common.Z(in.SplitMs), common.Bool(in.Partial), strs(in.Replicas))
	}
}

func resolve(t string) (string, bool) {
	ids, err := tenant.TenantIDs(user.InjectOrgID(context.Background(), t))
	if err != nil {
		return "", false
	}
	return tenant.JoinTenantIDs(ids), true
}

func sortedCopy(xs []string) []string {
	c := append([]string{}, xs...)
	sort.Strings(c)
	return c
}

func resClass(msr int64) int {
	rs := queryfrontend.VerifC43Resolutions()
	i := 0
	for ; i < len(rs) && rs[i] > msr; i++ {
	}
	return i
}

// diff returns the names of the listed parameters in which a and b differ
// (Go-side evaluation of the predicate; search aid only).
func diff(a, b *reqIn, ra, rb string) []string {
	var d []string
	add := func(c bool, n string) {
		if c {
			d = append(d, n)
		}
	}
	add(a.Tenant != b.Tenant, "tenant")
	add(a.Kind != b.Kind, "kind")
	if a.Kind != b.Kind {
		return d
	}
	add(a.SplitMs != b.SplitMs, "split")
	add(a.Start/a.SplitMs != b.Start/b.SplitMs, "window")
	add(a.Partial != b.Partial, "partial")
	switch a.Kind {
	case "range":
		add(a.Query != b.Query, "query")
		add(a.Step != b.Step, "step")
		add(resClass(a.MSR) != resClass(b.MSR), "resolution")
		shardEq := (a.Shard == nil && b.Shard == nil) || (a.Shard != nil && b.Shard != nil && *a.Shard == *b.Shard)
		add(!shardEq, "shard")
		add(a.Lookback != b.Lookback, "lookback")
		add(a.Engine != b.Engine, "engine")
		add(fmt.Sprintf("%q", sortedCopy(a.Replicas)) != fmt.Sprintf("%q", sortedCopy(b.Replicas)), "replicas")
		add(a.Analyze != b.Analyze, "analyze")
	case "labels":
		add(a.Label != b.Label, "label")
		add(ra != rb, "matchers")
	case "series":
		add(ra != rb, "matchers")
		add(fmt.Sprintf("%q", sortedCopy(a.Replicas)) != fmt.Sprintf("%q", sortedCopy(b.Replicas)), "replicas")
	}
	return d
}

func has(d []string, n string) bool {
	for _, x := range d {
		if x == n {
			return true
		}
	}
	return false
}

func subset(d []string, allowed ...string) bool {
	for _, x := range d {
		if !has(allowed, x) {
			return false
		}
	}
	return true
}

func exoticReplicas(xs []string) bool {
	for _, x := range xs {
		if x == "" || strings.ContainsAny(x, ":,") {
			return true
		}
	}
	return false
}

func run(raw json.RawMessage) (common.Case, error) {
	var in input
	if err := json.Unmarshal(raw, &in); err != nil {
		return common.Case{}, err
	}
	var c common.Case
	if in.Kind == "tenant" {
		_, ok := resolve(in.Tenant)
		c.Class = "tenant"
		c.Coq = common.App("CTenant", common.Bytes(in.Tenant), common.Bool(ok))
		c.Obs = ok
		c.Nontrivial = !ok
		return c, nil
	}
	if in.A == nil || in.B == nil {
		return c, fmt.Errorf("pair without requests")
	}
	var keys [2]string
	var rend [2]string
	for i, r := range []*reqIn{in.A, in.B} {
		if r.SplitMs <= 0 {
			return c, fmt.Errorf("split interval must be positive")
		}
		uid, ok := resolve(r.Tenant)
		if !ok { // the frontend rejects this tenant: no key is ever built
			c.Class = "tenant-rejected"
			c.Coq = common.App("CTenant", common.Bytes(r.Tenant), common.Bool(false))
			c.Obs = false
			return c, nil
		}
		req, rendered, err := build(r)
		if err != nil {
			return c, err
		}
		if !queryfrontend.VerifC43ShouldCache(req) {
			return c, fmt.Errorf("request not cacheable")
		}
		keys[i] = queryfrontend.VerifC43GenerateCacheKey(uid, req)
		rend[i] = rendered
	}
	c.Coq = common.App("CPair", common.Bytes(in.A.Tenant), coqReq(in.A, rend[0]), common.Bytes(keys[0]),
		common.Bytes(in.B.Tenant), coqReq(in.B, rend[1]), common.Bytes(keys[1]))
	c.Obs = keys
	d := diff(in.A, in.B, rend[0], rend[1])
	c.Nontrivial = len(d) > 0 || keys[0] == keys[1]
	c.Class = in.A.Kind + "/" + in.B.Kind
	if in.Note != "" {
		c.Class += " " + in.Note
	}
	if keys[0] == keys[1] {
		c.Class += " same-key"
	}
	if keys[0] == keys[1] && len(d) > 0 {
		c.GoPred = fmt.Sprintf("requests differ in %v but share the cache key %q", d, keys[0])
		switch {
		case has(d, "tenant"):
			c.Sig = "tenant-separator"
		case has(d, "kind"):
			c.Sig = "cross-kind"
		case in.A.Kind == "series" && has(d, "replicas") && subset(d, "replicas", "partial"):
			c.Sig = "series-key-omits-replica-labels"
		case in.A.Kind != "range" && subset(d, "partial"):
			c.Sig = "labels-series-key-omits-partial-response"
		case in.A.Kind == "range" && has(d, "replicas") && (exoticReplicas(in.A.Replicas) || exoticReplicas(in.B.Replicas)):
			c.Sig = "replica-label-separator"
		case in.A.Kind == "range" && has(d, "engine") && (strings.Contains(in.A.Engine, ":") || strings.Contains(in.B.Engine, ":")):
			c.Sig = "engine-separator"
		default:
			c.Sig = "key-collision"
		}
	}
	return c, nil
}

// ---- generators ----

var tenants = []string{"", "anonymous", "a", "b", "team-1", "a:b", "a:", ":", "a%3Ab", "a%", "%", "%25", "a|b", "tenant:up", "ü", "a:b:c", "x%3A", "fe", "a::"}
var queries = []string{"up", "c", "b:c", "job:up:rate5m", `sum(rate(http_requests_total{job="a:b"}[5m:1m]))`, "a", ":", "", "up:1", `{__name__=~"a:.*"}`, "c:60000", "x%", "sum by (a,b) (up)"}
var engines = []string{"", "thanos", "prometheus", "thanos"}
var replicaSets = [][]string{nil, {"replica"}, {"prometheus", "pod"}, {"pod", "prometheus"}, {"a", "b", "c"}, {"rule_replica", "replica"}, {"b", "a", "b"}}
var labelNames = []string{"", "job", "instance", "__name__", "a", "le"}
var splits = []int64{3600000, 86400000, 60000, 1, 7200000}
var steps = []int64{1000, 10000, 15000, 60000, 300000, 3600000, 7}
var msrs = []int64{0, 1, 299999, 300000, 300001, 3599999, 3600000, 3600001, 7200000, -1, 60000}
var lookbacks = []int64{0, 1000, 300000}

func genMatchers(r *rand.Rand) [][]matcherIn {
	n := r.Intn(3)
	var out [][]matcherIn
	for i := 0; i < n; i++ {
		k := 1 + r.Intn(2)
		var set []matcherIn
		for j := 0; j < k; j++ {
			m := matcherIn{Type: r.Intn(4), Name: common.Pick(r, "foo", "job", "a", "__name__", "b"),
				Value: common.Pick(r, "bar", "a:b", "", "x|y", `q"]] [[z="`, "c", ".*", "1:2")}
			if m.Type >= 2 && strings.Contains(m.Value, "[") { // keep regex matchers compilable
				m.Type -= 2
			}
			set = append(set, m)
		}
		out = append(out, set)
	}
	return out
}

func genReq(r *rand.Rand) *reqIn {
	q := &reqIn{Tenant: common.Pick(r, tenants...), SplitMs: common.Pick(r, splits...), Partial: r.Intn(2) == 0}
	q.Start = common.Pick(r, int64(0), 1600000000000, 1599999999999, -5000, 86400000, 3600000*7+5) + common.Between(r, 0, 2*q.SplitMs)
	switch k := r.Intn(10); {
	case k < 6:
		q.Kind = "range"
		q.Query = common.Pick(r, queries...)
		q.Step = common.Pick(r, steps...)
		q.MSR = common.Pick(r, msrs...)
		if r.Intn(3) == 0 {
			t := common.Between(r, 1, 12)
			q.Shard = &[2]int64{t, common.Between(r, 0, t-1)}
		}
		q.Lookback = common.Pick(r, lookbacks...)
		q.Engine = common.Pick(r, engines...)
		q.Replicas = append([]string(nil), common.Pick(r, replicaSets...)...)
		q.Analyze = r.Intn(4) == 0
	case k < 8:
		q.Kind = "labels"
		q.Label = common.Pick(r, labelNames...)
		q.Matchers = genMatchers(r)
	default:
		q.Kind = "series"
		q.Matchers = genMatchers(r)
		q.Replicas = append([]string(nil), common.Pick(r, replicaSets...)...)
	}
	return q
}

func clone(a *reqIn) *reqIn {
	b, _ := json.Marshal(a)
	var c reqIn
	_ = json.Unmarshal(b, &c)
	return &c
}

func pickOther[T comparable](r *rand.Rand, cur T, xs []T) T {
	for i := 0; i < 20; i++ {
		x := xs[r.Intn(len(xs))]
		if x != cur {
			return x
		}
	}
	return cur
}

// mutate changes exactly one parameter of a copy of a; returns the note.
func mutate(r *rand.Rand, a *reqIn) (*reqIn, string) {
	b := clone(a)
	var opts []string
	switch a.Kind {
	case "range":
		opts = []string{"tenant", "query", "step", "msr", "shard", "lookback", "engine", "partial", "replicas", "analyze", "split", "window", "start-same-window", "replica-order", "msr-same-class"}
	case "labels":
		opts = []string{"tenant", "label", "matchers", "partial", "split", "window"}
	default:
		opts = []string{"tenant", "matchers", "partial", "replicas", "split", "window"}
	}
	o := common.Pick(r, opts...)
	switch o {
	case "tenant":
		b.Tenant = pickOther(r, a.Tenant, tenants)
	case "query":
		b.Query = pickOther(r, a.Query, queries)
	case "step":
		b.Step = pickOther(r, a.Step, steps)
	case "msr":
		b.MSR = pickOther(r, a.MSR, msrs)
	case "msr-same-class":
		for i := 0; i < 20; i++ {
			m := common.Pick(r, msrs...)
			if resClass(m) == resClass(a.MSR) {
				b.MSR = m
			}
		}
	case "shard":
		if a.Shard == nil || r.Intn(3) == 0 {
			t := common.Between(r, 1, 12)
			b.Shard = &[2]int64{t, common.Between(r, 0, t-1)}
		} else if r.Intn(2) == 0 {
			b.Shard = nil
		} else {
			b.Shard = &[2]int64{a.Shard[0] + 1, a.Shard[1]}
		}
	case "lookback":
		b.Lookback = pickOther(r, a.Lookback, lookbacks)
	case "engine":
		b.Engine = pickOther(r, a.Engine, engines)
	case "partial":
		b.Partial = !a.Partial
	case "analyze":
		b.Analyze = !a.Analyze
	case "replicas":
		b.Replicas = append([]string(nil), common.Pick(r, replicaSets...)...)
	case "replica-order":
		b.Replicas = append([]string(nil), a.Replicas...)
		r.Shuffle(len(b.Replicas), func(i, j int) { b.Replicas[i], b.Replicas[j] = b.Replicas[j], b.Replicas[i] })
	case "split":
		b.SplitMs = pickOther(r, a.SplitMs, splits)
	case "window":
		b.Start = a.Start + a.SplitMs*common.Between(r, 1, 3)
	case "start-same-window":
		w := a.Start / a.SplitMs
		lo := w * a.SplitMs
		if a.Start >= 0 {
			b.Start = lo + common.Between(r, 0, a.SplitMs-1)
		}
	case "label":
		b.Label = pickOther(r, a.Label, labelNames)
	case "matchers":
		b.Matchers = genMatchers(r)
	}
	return b, o
}

// shift moves a piece of one free-text field across the ':' into the neighbouring one.
func shift(r *rand.Rand, a *reqIn) (*reqIn, *reqIn) {
	x, y := clone(a), clone(a)
	p, q := common.Pick(r, "a", "b", "up", "job", "t1"), common.Pick(r, "c", "up", "x:y", "rate5m")
	switch a.Kind {
	case "range":
		x.Tenant, x.Query = p+":"+q, a.Query
		y.Tenant, y.Query = p, q+":"+a.Query
	case "labels":
		x.Tenant, x.Label = p+":"+q, a.Label
		y.Tenant, y.Label = p, q+":"+a.Label
	default:
		// series key of tenant "p:[]" vs labels key of tenant p, label "[]" with the same matchers
		x.Tenant = p + ":[]"
		y.Kind, y.Tenant, y.Label, y.Replicas = "labels", p, "[]", nil
		x.Matchers, y.Matchers = nil, nil
		y.Label = "[]"
		x.Tenant = p + ":[]"
	}
	return x, y
}

func gen(r *rand.Rand, tier string, n int) []any {
	var out []any
	for i := 0; i < n; i++ {
		switch k := r.Intn(20); {
		case k < 1:
			out = append(out, input{Kind: "tenant", Tenant: common.Pick(r, ".", "..", "a/b", `a\b`, "a", "", "...", "a.b", "a:b", "/", "a|b", "..a")})
		case k < 11:
			a := genReq(r)
			b, note := mutate(r, a)
			out = append(out, input{Kind: "pair", A: a, B: b, Note: "one:" + note})
		case k < 14:
			a := genReq(r)
			x, y := shift(r, a)
			out = append(out, input{Kind: "pair", A: x, B: y, Note: "shift"})
		case k < 15:
			a := genReq(r)
			out = append(out, input{Kind: "pair", A: a, B: clone(a), Note: "identical"})
		case k < 16:
			// free-text fields outside their usual alphabet: separators inside replica labels / engine
			a := genReq(r)
			a.Kind, a.Query, a.Step, a.Matchers, a.Label = "range", common.Pick(r, queries...), common.Pick(r, steps...), nil, ""
			b := clone(a)
			switch r.Intn(4) {
			case 0:
				a.Replicas, b.Replicas = []string{"a,b"}, []string{"b", "a"}
			case 1:
				a.Replicas, b.Replicas = []string{""}, nil
			case 2:
				a.Engine, a.Partial, a.Replicas = "e", true, []string{"r:true:x"}
				b.Engine, b.Partial, b.Replicas = "e:true:r", true, []string{"x"}
			default:
				// the engine field absorbs a copy of the numeric fields that the other request has inside its query
				for _, q := range []*reqIn{a, b} {
					q.Step, q.SplitMs, q.Start, q.MSR, q.Shard, q.Lookback, q.Partial, q.Replicas, q.Analyze = 1, 2, 6, 3600000, nil, 0, true, []string{"r"}, true
				}
				a.Query, a.Engine = "q", "e:true:r:true:1:2:3:0:-:0:e"
				b.Query, b.Engine = "q:1:2:3:0:-:0:e:true:r:true", "e"
			}
			out = append(out, input{Kind: "pair", A: a, B: b, Note: "exotic"})
		default:
			out = append(out, input{Kind: "pair", A: genReq(r), B: genReq(r), Note: "random"})
		}
	}
	return out
}

func main() {
	common.Main(common.Prop{ID: "C43", Facts: facts, Gen: gen, Run: run, QuickN: 800, ThoroughN: 12000,
		Preamble: "Open Scope Z_scope.\n"})
}
