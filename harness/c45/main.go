// C45: rules API label filters follow Prometheus semantics (OR over selector
// sets of AND over selectors, on non-templated labels), replicas deduplicated.
package main

import (
	"context"
	"encoding/json"
	"fmt"
	"io"
	"math/rand"
	"sort"
	"strconv"
	"strings"
	"text/template"
	"text/template/parse"
	"time"

	"github.com/prometheus/prometheus/model/labels"

	"github.com/thanos-io/thanos/pkg/extpromql"
	"github.com/thanos-io/thanos/pkg/rules"
	"github.com/thanos-io/thanos/pkg/rules/rulespb"
	"github.com/thanos-io/thanos/pkg/store/labelpb"
	"github.com/thanos-io/thanos/zzverif/common"
)

type mIn struct {
	T int    `json:"t"` // 0 = , 1 != , 2 =~ , 3 !~
	N string `json:"n"`
	V string `json:"v"`
}

type ruleIn struct {
	Alert  bool        `json:"alert"`
	Name   string      `json:"name"`
	Labels [][2]string `json:"labels"`
	Query  string      `json:"query"`
	Dur    int64       `json:"dur"`
	State  int         `json:"state"`
	Eval   int64       `json:"eval"`
}

type groupIn struct {
	File  string   `json:"file"`
	Name  string   `json:"name"`
	Rules []ruleIn `json:"rules"`
}

type input struct {
	Kind    string      `json:"kind"` // matches | rules
	Sets    [][]mIn     `json:"sets"`
	Replica []string    `json:"replica,omitempty"`
	Groups  []groupIn   `json:"groups,omitempty"`
	Labels  [][2]string `json:"labels,omitempty"`
}

// ---- tie T: shape of the loop in matches ----

func facts(repo string, w io.Writer) error {
	s, err := common.ParseSrc(repo, "pkg/rules/rules.go")
	if err != nil {
		return err
	}
	evs, err := s.CallOrder("matches")
	if err != nil {
		return err
	}
	fmt.Fprintln(w, "(* pkg/rules/rules.go: source-order events of func matches *)")
	fmt.Fprintln(w, common.EventsCoq("matches_events", evs))
	// the helper introduced by the repair; absent on an unrepaired tree
	evs2, err := s.CallOrder("matchesAll")
	if err != nil {
		evs2 = nil
	}
	fmt.Fprintln(w, "(* pkg/rules/rules.go: source-order events of func matchesAll (empty when the function does not exist) *)")
	fmt.Fprintln(w, common.EventsCoq("matchesAll_events", evs2))
	evs3, err := s.CallOrder("filterRulesByMatchers")
	if err != nil {
		return err
	}
	fmt.Fprintln(w, "(* pkg/rules/rules.go: source-order events of func filterRulesByMatchers *)")
	fmt.Fprintln(w, common.EventsCoq("filterRules_events", evs3))
	return nil
}

// ---- oracles ----

// templated mirrors the test inside matches on a fresh template.
func templated(v string) bool {
	t, err := template.New("label").Parse(v)
	return !(err == nil && len(t.Root.Nodes) == 1 && t.Root.Nodes[0].Type() == parse.NodeText)
}

var ops = []string{"=", "!=", "=~", "!~"}

func selector(ms []mIn) string {
	var parts []string
	for _, m := range ms {
		parts = append(parts, m.N+ops[m.T&3]+strconv.Quote(m.V))
	}
	return "{" + strings.Join(parts, ",") + "}"
}

func normLabels(in [][2]string) [][2]string {
	seen := map[string]bool{}
	var out [][2]string
	for _, l := range in {
		if !seen[l[0]] {
			seen[l[0]] = true
			out = append(out, l)
		}
	}
	sort.Slice(out, func(i, j int) bool { return out[i][0] < out[j][0] })
	return out
}

func promLabels(in [][2]string) labels.Labels {
	ls := make([]labels.Label, 0, len(in))
	for _, l := range in {
		ls = append(ls, labels.Label{Name: l[0], Value: l[1]})
	}
	return labels.New(ls...)
}

func coqLabels(in [][2]string) string {
	var xs []string
	for _, l := range in {
		xs = append(xs, common.Pair(common.Bytes(l[0]), common.Bytes(l[1])))
	}
	return common.List(xs)
}

type fakeSrv struct{ groups []*rulespb.RuleGroup }

func (f *fakeSrv) Rules(_ *rulespb.RulesRequest, s rulespb.Rules_RulesServer) error {
	for _, g := range f.groups {
		if err := s.Send(rulespb.NewRuleGroupRulesResponse(g)); err != nil {
			return err
		}
	}
	return nil
}

func coqRule(alert bool, name string, ls [][2]string, query string, dur int64, state int, eval int64) string {
	k := "Recording"
	if alert {
		k = "Alerting"
	}
	return common.App("Rule", k, common.Bytes(name), coqLabels(ls), common.Bytes(query), common.Z(dur), common.Z(int64(state)), common.Z(eval))
}

func matcherType(t labels.MatchType) int {
	switch t {
	case labels.MatchEqual:
		return 0
	case labels.MatchNotEqual:
		return 1
	case labels.MatchRegexp:
		return 2
	}
	return 3
}

func run(raw json.RawMessage) (common.Case, error) {
	var in input
	if err := json.Unmarshal(raw, &in); err != nil {
		return common.Case{}, err
	}
	c := common.Case{Class: fmt.Sprintf("%s/sets=%d", in.Kind, len(in.Sets))}
	// selectors, through the same parser GRPCClient.Rules uses
	var sels []string
	sets := make([][]*labels.Matcher, len(in.Sets))
	for i, s := range in.Sets {
		sel := selector(s)
		sels = append(sels, sel)
		ms, err := extpromql.ParseMetricSelector(sel)
		if err != nil {
			c.Coq, c.Class = "CSkip", "parse-error"
			return c, nil
		}
		sets[i] = ms
	}
	// all label values that can be looked up
	in.Labels = normLabels(in.Labels)
	vals := map[string]bool{"": true}
	for _, l := range in.Labels {
		vals[l[1]] = true
	}
	for gi := range in.Groups {
		for ri := range in.Groups[gi].Rules {
			r := &in.Groups[gi].Rules[ri]
			r.Labels = normLabels(r.Labels)
			if !r.Alert {
				r.Dur, r.State = 0, 0
			}
			for _, l := range r.Labels {
				vals[l[1]] = true
			}
		}
	}
	var vs []string
	for v := range vals {
		vs = append(vs, v)
	}
	sort.Strings(vs)
	// tables
	var tt, rt, coqSets []string
	for _, v := range vs {
		tt = append(tt, common.Pair(common.Bytes(v), common.Bool(templated(v))))
	}
	seenRe := map[string]bool{}
	for _, ms := range sets {
		var cm []string
		for _, m := range ms {
			t := matcherType(m.Type)
			cm = append(cm, common.App("Matcher", common.N(uint64(t)), common.Bytes(m.Name), common.Bytes(m.Value)))
			if t >= 2 && !seenRe[m.Value] {
				seenRe[m.Value] = true
				pos, err := labels.NewMatcher(labels.MatchRegexp, m.Name, m.Value)
				if err != nil {
					return c, err
				}
				for _, v := range vs {
					rt = append(rt, common.Pair(common.Pair(common.Bytes(m.Value), common.Bytes(v)), common.Bool(pos.Matches(v))))
				}
			}
		}
		coqSets = append(coqSets, common.List(cm))
	}
	// Go-side specification (search aid): OR of ANDs on the non-templated labels
	spec := func(ls [][2]string) bool {
		if len(sets) == 0 {
			return true
		}
		get := func(n string) string {
			for _, l := range ls {
				if l[0] == n && !templated(l[1]) {
					return l[1]
				}
			}
			return ""
		}
		for _, ms := range sets {
			ok := true
			for _, m := range ms {
				if !m.Matches(get(m.Name)) {
					ok = false
				}
			}
			if ok {
				return true
			}
		}
		return false
	}

	switch in.Kind {
	case "matches":
		out := rules.VerifC45Matches(sets, promLabels(in.Labels))
		c.Coq = common.App("CMatch", common.List(coqSets), common.List(rt), common.List(tt), coqLabels(in.Labels), common.Bool(out))
		c.Obs = map[string]any{"selectors": sels, "matches": out}
		c.Nontrivial = len(sets) >= 2
		if want := spec(in.Labels); want != out {
			wsAfterTemplated := false
			seenTemplated := false
			for _, l := range in.Labels {
				if l[1] != "" && strings.TrimSpace(l[1]) == "" && seenTemplated {
					wsAfterTemplated = true
				}
				if l[1] != "" && templated(l[1]) {
					seenTemplated = true
				}
			}
			if wsAfterTemplated {
				c.GoPred = "a whitespace-only label value that follows a templated label is treated as templated"
				c.Sig = "whitespace-label-after-templated"
			} else if want {
				c.GoPred = "labels satisfy every selector of one set but matches returned false"
				c.Sig = "and-across-sets"
			} else {
				c.GoPred = "labels satisfy no selector set but matches returned true"
				c.Sig = "matches-too-much"
			}
		}
		return c, nil
	case "rules":
	default:
		return c, fmt.Errorf("bad kind %q", in.Kind)
	}

	var groups []*rulespb.RuleGroup
	var coqGroups []string
	nrules := 0
	for _, g := range in.Groups {
		pg := &rulespb.RuleGroup{File: g.File, Name: g.Name}
		var crs []string
		for _, r := range g.Rules {
			nrules++
			lset := labelpb.ZLabelSet{Labels: labelpb.ZLabelsFromPromLabels(promLabels(r.Labels))}
			ev := time.Unix(r.Eval, 0).UTC()
			if r.Alert {
				pg.Rules = append(pg.Rules, rulespb.NewAlertingRule(&rulespb.Alert{
					State: rulespb.AlertState(r.State), Name: r.Name, Query: r.Query, DurationSeconds: float64(r.Dur),
					Labels: lset, LastEvaluation: ev}))
			} else {
				pg.Rules = append(pg.Rules, rulespb.NewRecordingRule(&rulespb.RecordingRule{
					Name: r.Name, Query: r.Query, Labels: lset, LastEvaluation: ev}))
			}
			crs = append(crs, coqRule(r.Alert, r.Name, r.Labels, r.Query, r.Dur, r.State, r.Eval))
		}
		groups = append(groups, pg)
		coqGroups = append(coqGroups, common.App("Group", common.Bytes(g.File+";"+g.Name), common.List(crs)))
	}
	cl := rules.NewGRPCClientWithDedup(&fakeSrv{groups: groups}, in.Replica)
	res, _, err := cl.Rules(context.Background(), &rulespb.RulesRequest{MatcherString: sels})
	if err != nil {
		return c, err
	}
	type obsRule struct {
		Kind, Name, Labels, Query string
		Dur                       int64
		State                     int
		Eval                      int64
	}
	type obsGroup struct {
		Key   string
		Rules []obsRule
	}
	var obs []obsGroup
	var coqOut []string
	for _, g := range res.Groups {
		og := obsGroup{Key: g.Key()}
		var crs []string
		for _, r := range g.Rules {
			var ls [][2]string
			r.GetLabels().Range(func(l labels.Label) { ls = append(ls, [2]string{l.Name, l.Value}) })
			or := obsRule{Name: r.GetName(), Labels: r.GetLabels().String(), Query: r.GetQuery(), Eval: r.GetLastEvaluation().Unix()}
			alert := r.GetAlert() != nil
			if alert {
				or.Kind = "alerting"
				or.Dur = int64(r.GetAlert().DurationSeconds)
				or.State = int(r.GetAlert().State)
			} else {
				or.Kind = "recording"
			}
			og.Rules = append(og.Rules, or)
			crs = append(crs, coqRule(alert, or.Name, ls, or.Query, or.Dur, or.State, or.Eval))
		}
		obs = append(obs, og)
		coqOut = append(coqOut, common.App("Group", common.Bytes(og.Key), common.List(crs)))
	}
	var reps []string
	for _, r := range in.Replica {
		reps = append(reps, common.Bytes(r))
	}
	c.Coq = common.App("CRules", common.List(coqSets), common.List(rt), common.List(tt), common.List(reps), common.List(coqGroups), common.List(coqOut))
	c.Obs = map[string]any{"selectors": sels, "groups": obs}
	c.Nontrivial = nrules >= 2 && (len(sets) >= 2 || (len(in.Replica) > 0 && len(in.Groups) >= 2))
	// Go-side search aid: every selected rule must be represented (name, query, labels without replica labels)
	isRep := map[string]bool{}
	for _, r := range in.Replica {
		isRep[r] = true
	}
	for _, g := range in.Groups {
		for _, r := range g.Rules {
			if !spec(r.Labels) {
				continue
			}
			var want []string
			for _, l := range r.Labels {
				if !isRep[l[0]] && l[1] != "" {
					want = append(want, l[0]+"="+l[1])
				}
			}
			found := false
			for _, og := range res.Groups {
				if og.Key() != g.File+";"+g.Name {
					continue
				}
				for _, or := range og.Rules {
					var got []string
					or.GetLabels().Range(func(l labels.Label) { got = append(got, l.Name+"="+l.Value) })
					if or.GetName() == r.Name && or.GetQuery() == r.Query && (or.GetAlert() != nil) == r.Alert && strings.Join(got, ",") == strings.Join(want, ",") {
						found = true
					}
				}
			}
			if !found && c.GoPred == "" {
				c.GoPred = fmt.Sprintf("rule %q of group %q satisfies a selector set but is missing from the response", r.Name, g.File+";"+g.Name)
				c.Sig = "selected-rule-missing"
			}
		}
	}
	return c, nil
}

// ---- generators ----

var (
	lnames  = []string{"a", "b", "c", "replica", "zone"}
	lvalues = []string{"x", "y", "z", "1", "xy", "{{x}}", "{{ $labels.a }}", "x{{y", "x{{.y}}", "x{{.y}}"}
	mvalues = []string{"x", "y", "z", "1", "xy", "", "x|y", ".*", ".+", "x.*", "[xy]", "{{x}}", "y|z|1", "x{{.y}}", "x.+"}
)

func genLabels(r *rand.Rand) [][2]string {
	var ls [][2]string
	for _, n := range lnames {
		if r.Intn(100) < 55 {
			v := common.Pick(r, lvalues...)
			if r.Intn(40) == 0 {
				v = ""
			}
			ls = append(ls, [2]string{n, v})
		}
	}
	return ls
}

func genSets(r *rand.Rand) [][]mIn {
	k := r.Intn(10)
	n := 2
	switch {
	case k < 1:
		n = 0
	case k < 4:
		n = 1
	case k < 8:
		n = 2
	default:
		n = 3
	}
	var sets [][]mIn
	for i := 0; i < n; i++ {
		for try := 0; ; try++ {
			var s []mIn
			for j := 0; j < 1+r.Intn(3); j++ {
				name := common.Pick(r, lnames...)
				if r.Intn(8) == 0 {
					name = "missing"
				}
				t := common.Pick(r, 0, 0, 0, 1, 2, 2, 3)
				s = append(s, mIn{T: t, N: name, V: common.Pick(r, mvalues...)})
			}
			if _, err := extpromql.ParseMetricSelector(selector(s)); err == nil || try > 20 {
				sets = append(sets, s)
				break
			}
		}
	}
	return sets
}

func genRule(r *rand.Rand) ruleIn {
	ru := ruleIn{
		Alert: r.Intn(3) > 0, Name: common.Pick(r, "r1", "r2", "r3"), Labels: genLabels(r),
		Query: common.Pick(r, "up", "up == 0"), Eval: common.Pick(r, int64(100), 200, 300, 1700000000),
	}
	if ru.Alert {
		ru.Dur = common.Pick(r, int64(0), 60, 60, 300)
		ru.State = r.Intn(3)
	}
	return ru
}

func gen(r *rand.Rand, tier string, n int) []any {
	var out []any
	maxRules, maxGroups := 5, 4
	if tier == "thorough" {
		maxRules, maxGroups = 9, 6
	}
	for i := 0; i < n; i++ {
		in := input{Sets: genSets(r)}
		if r.Intn(10) < 5 {
			in.Kind = "matches"
			in.Labels = genLabels(r)
			out = append(out, in)
			continue
		}
		in.Kind = "rules"
		if r.Intn(3) == 0 {
			out = append(out, genSharedValues(r, maxRules))
			continue
		}
		switch r.Intn(4) {
		case 0:
		case 1:
			in.Replica = []string{"replica"}
		case 2:
			in.Replica = []string{"replica", "zone"}
		default:
			in.Replica = []string{"zone", "nosuch"}
		}
		ng := 1 + r.Intn(maxGroups)
		for g := 0; g < ng; g++ {
			gi := groupIn{File: common.Pick(r, "f1.yaml", "f2.yaml"), Name: common.Pick(r, "g1", "g2")}
			nr := r.Intn(maxRules + 1)
			for k := 0; k < nr; k++ {
				ru := genRule(r)
				// replicas of an earlier rule: same rule, other replica label / evaluation state
				if len(gi.Rules) > 0 && r.Intn(3) == 0 {
					ru = gi.Rules[r.Intn(len(gi.Rules))]
					ru.Labels = append([][2]string{}, ru.Labels...)
					for li := range ru.Labels {
						if ru.Labels[li][0] == "replica" || ru.Labels[li][0] == "zone" {
							ru.Labels[li][1] = common.Pick(r, "x", "y", "z")
						}
					}
					ru.Eval = common.Pick(r, int64(100), 200, 300)
					if ru.Alert {
						ru.State = r.Intn(3)
					}
				}
				gi.Rules = append(gi.Rules, ru)
			}
			in.Groups = append(in.Groups, gi)
		}
		out = append(out, in)
	}
	return out
}

// genSharedValues builds a response in which several rules carry the same value
// strings under DIFFERENT label names (values moved or split between two
// labels, one of them absent), filtered by selector sets over both names: any
// per-request bookkeeping keyed on label values alone confuses these rules.
func genSharedValues(r *rand.Rand, maxRules int) input {
	in := input{Kind: "rules"}
	names := append([]string{}, lnames...)
	r.Shuffle(len(names), func(a, b int) { names[a], names[b] = names[b], names[a] })
	n1, n2 := names[0], names[1]
	vals := []string{"x", "y", "xy", "yx", "1", "x1"}
	v := common.Pick(r, vals...)
	w := common.Pick(r, vals...)
	// projections on (n1, n2) whose concatenations coincide pairwise
	projs := [][2]string{{v, ""}, {"", v}, {v, w}, {v + w, ""}, {"", v + w}, {w, v}}
	// selector sets over both names
	mk := func(t int, n, val string) mIn { return mIn{T: t, N: n, V: val} }
	switch r.Intn(4) {
	case 0:
		in.Sets = [][]mIn{{mk(0, n1, v), mk(1, n2, "zzz")}}
	case 1:
		in.Sets = [][]mIn{{mk(0, n1, v)}, {mk(0, n2, w), mk(2, n1, ".+")}}
	case 2:
		in.Sets = [][]mIn{{mk(2, n1, v+".*"), mk(3, n2, v+".*")}}
	default:
		in.Sets = [][]mIn{{mk(0, n2, v)}, {mk(0, n1, v+w)}}
	}
	if r.Intn(2) == 0 {
		in.Replica = []string{"replica"}
	}
	ng := 1 + r.Intn(2)
	k := 0
	for g := 0; g < ng; g++ {
		gi := groupIn{File: common.Pick(r, "f1.yaml", "f2.yaml"), Name: common.Pick(r, "g1", "g2")}
		nr := 2 + r.Intn(maxRules)
		for i := 0; i < nr; i++ {
			p := projs[r.Intn(len(projs))]
			var ls [][2]string
			if p[0] != "" {
				ls = append(ls, [2]string{n1, p[0]})
			}
			if p[1] != "" {
				ls = append(ls, [2]string{n2, p[1]})
			}
			if r.Intn(3) == 0 {
				ls = append(ls, [2]string{names[2], common.Pick(r, "x", "{{.x}}")})
			}
			k++
			ru := ruleIn{Alert: r.Intn(2) == 0, Name: fmt.Sprintf("r%d", k), Labels: ls, Query: "up", Eval: 100}
			if ru.Alert {
				ru.Dur, ru.State = 60, r.Intn(3)
			}
			gi.Rules = append(gi.Rules, ru)
		}
		in.Groups = append(in.Groups, gi)
	}
	return in
}

func main() {
	common.Main(common.Prop{ID: "C45", Facts: facts, Gen: gen, Run: run, QuickN: 500, ThoroughN: 8000})
}
