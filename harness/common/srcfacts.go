package common

// srcfacts: the small Go -> Gallina translator behind tie T.
//
// It handles exactly this fragment and refuses (returns an error, which the
// driver reports as a broken tie) on anything else:
//
//   * TranslateFunc: a top-level function or method whose parameters and
//     results are integers / bools / time.Duration, whose body is a sequence of
//       x := e | x = e | x op= e | var x T = e | x++ | x--
//       if c { <assignments only> } [else { <assignments only> }]
//       if c { ...; return e }            (early return)
//       return e                          (last statement)
//     with expressions over + - * / % (Go truncating semantics: Z.quot, Z.rem),
//     comparisons, && || !, integer literals, parameters, locals, calls to
//     other functions translated in the same Gen file, min/max, integer
//     conversions (identity; no-overflow is a stated side condition) and the
//     time.Duration unit constants. Output: `Definition name (params : Z) : T`.
//   * CallOrder: the source-order list of call / defer / return events of a
//     function body, for statement-order facts.
//   * RHS: the right-hand side of `name :=` inside a function, as an
//     expression over in-scope integer identifiers.
//
// No loops, slices, maps, interfaces or floats.

import (
	"fmt"
	"go/ast"
	"go/parser"
	"go/token"
	"path/filepath"
	"strconv"
	"strings"
)

type SrcFile struct {
	Fset *token.FileSet
	File *ast.File
	Path string
}

func ParseSrc(repo, rel string) (*SrcFile, error) {
	p := filepath.Join(repo, rel)
	fset := token.NewFileSet()
	f, err := parser.ParseFile(fset, p, nil, parser.ParseComments)
	if err != nil {
		return nil, fmt.Errorf("srcfacts: parse %s: %w", rel, err)
	}
	return &SrcFile{Fset: fset, File: f, Path: rel}, nil
}

// FindFunc locates a top-level func by name; for methods use "Recv.Name"
// (pointer receivers written without the star).
func (s *SrcFile) FindFunc(name string) (*ast.FuncDecl, error) {
	recv, fn := "", name
	if i := strings.Index(name, "."); i >= 0 {
		recv, fn = name[:i], name[i+1:]
	}
	for _, d := range s.File.Decls {
		fd, ok := d.(*ast.FuncDecl)
		if !ok || fd.Name.Name != fn {
			continue
		}
		if recv == "" && fd.Recv == nil {
			return fd, nil
		}
		if recv != "" && fd.Recv != nil && len(fd.Recv.List) == 1 {
			t := fd.Recv.List[0].Type
			if st, ok := t.(*ast.StarExpr); ok {
				t = st.X
			}
			if ix, ok := t.(*ast.IndexExpr); ok {
				t = ix.X
			}
			if id, ok := t.(*ast.Ident); ok && id.Name == recv {
				return fd, nil
			}
		}
	}
	return nil, fmt.Errorf("srcfacts: %s: func %s not found", s.Path, name)
}

var durationUnits = map[string]string{
	"Nanosecond": "1", "Microsecond": "1000", "Millisecond": "1000000",
	"Second": "1000000000", "Minute": "60000000000", "Hour": "3600000000000",
}

var intTypes = map[string]bool{
	"int": true, "int64": true, "int32": true, "uint64": true, "uint32": true,
	"uint": true, "Duration": true, "time.Duration": true, "int16": true, "uint16": true,
}

type trans struct {
	s      *SrcFile
	known  map[string]string // callee name -> Coq name
	consts map[string]string // identifier -> Coq expr (package-level constants)
}

func typeName(e ast.Expr) string {
	switch t := e.(type) {
	case *ast.Ident:
		return t.Name
	case *ast.SelectorExpr:
		if x, ok := t.X.(*ast.Ident); ok {
			return x.Name + "." + t.Sel.Name
		}
	}
	return "?"
}

// TranslateOpts tunes TranslateFunc.
type TranslateOpts struct {
	CoqName string            // name of the emitted Definition (default: Go name)
	Callees map[string]string // Go callee name -> Coq name, for calls to other translated functions
	Consts  map[string]string // identifier -> Coq expression
	// Selectors maps method-call selectors such as "r.GetStep" to a parameter
	// that is added to the Coq definition (so accessor calls on a request
	// become plain integer arguments).
	Selectors map[string]string
}

// TranslateFunc emits `Definition <name> (p1 p2 ... : Z) : Z|bool := ... .`
func (s *SrcFile) TranslateFunc(name string, o TranslateOpts) (string, error) {
	fd, err := s.FindFunc(name)
	if err != nil {
		return "", err
	}
	t := &trans{s: s, known: o.Callees, consts: o.Consts}
	var params []string
	for _, f := range fd.Type.Params.List {
		tn := typeName(f.Type)
		if !intTypes[tn] && tn != "bool" {
			return "", fmt.Errorf("srcfacts: %s: parameter type %s not supported", name, tn)
		}
		for _, n := range f.Names {
			if tn == "bool" {
				params = append(params, "("+n.Name+" : bool)")
			} else {
				params = append(params, "("+n.Name+" : Z)")
			}
		}
	}
	if fd.Type.Results == nil || len(fd.Type.Results.List) != 1 {
		return "", fmt.Errorf("srcfacts: %s: exactly one result required", name)
	}
	rt := typeName(fd.Type.Results.List[0].Type)
	coqRT := "Z"
	if rt == "bool" {
		coqRT = "bool"
	} else if !intTypes[rt] {
		return "", fmt.Errorf("srcfacts: %s: result type %s not supported", name, rt)
	}
	body, err := t.block(fd.Body.List, nil)
	if err != nil {
		return "", fmt.Errorf("srcfacts: %s: %w", name, err)
	}
	cn := o.CoqName
	if cn == "" {
		cn = fd.Name.Name
	}
	return fmt.Sprintf("Definition %s %s : %s :=\n%s.\n", cn, strings.Join(params, " "), coqRT, indent(body, "  ")), nil
}

func indent(s, pre string) string {
	ls := strings.Split(s, "\n")
	for i := range ls {
		ls[i] = pre + ls[i]
	}
	return strings.Join(ls, "\n")
}

// block translates statements; `rest` continuation is built recursively.
func (t *trans) block(stmts []ast.Stmt, after []ast.Stmt) (string, error) {
	if len(stmts) == 0 {
		if len(after) == 0 {
			return "", fmt.Errorf("function body falls off the end without return")
		}
		return t.block(after, nil)
	}
	st, rest := stmts[0], stmts[1:]
	switch x := st.(type) {
	case *ast.ReturnStmt:
		if len(x.Results) != 1 {
			return "", fmt.Errorf("return with %d results", len(x.Results))
		}
		return t.expr(x.Results[0])
	case *ast.AssignStmt:
		if len(x.Lhs) != 1 || len(x.Rhs) != 1 {
			return "", fmt.Errorf("multi-assignment not supported")
		}
		id, ok := x.Lhs[0].(*ast.Ident)
		if !ok {
			return "", fmt.Errorf("assignment to non-identifier")
		}
		rhs, err := t.expr(x.Rhs[0])
		if err != nil {
			return "", err
		}
		switch x.Tok {
		case token.DEFINE, token.ASSIGN:
		case token.ADD_ASSIGN:
			rhs = fmt.Sprintf("(%s + %s)", id.Name, rhs)
		case token.SUB_ASSIGN:
			rhs = fmt.Sprintf("(%s - %s)", id.Name, rhs)
		case token.MUL_ASSIGN:
			rhs = fmt.Sprintf("(%s * %s)", id.Name, rhs)
		case token.QUO_ASSIGN:
			rhs = fmt.Sprintf("(Z.quot %s %s)", id.Name, rhs)
		case token.REM_ASSIGN:
			rhs = fmt.Sprintf("(Z.rem %s %s)", id.Name, rhs)
		default:
			return "", fmt.Errorf("assignment operator %s not supported", x.Tok)
		}
		k, err := t.block(rest, after)
		if err != nil {
			return "", err
		}
		return fmt.Sprintf("let %s := %s in\n%s", id.Name, rhs, k), nil
	case *ast.IncDecStmt:
		id, ok := x.X.(*ast.Ident)
		if !ok {
			return "", fmt.Errorf("inc/dec of non-identifier")
		}
		op := "+"
		if x.Tok == token.DEC {
			op = "-"
		}
		k, err := t.block(rest, after)
		if err != nil {
			return "", err
		}
		return fmt.Sprintf("let %s := (%s %s 1) in\n%s", id.Name, id.Name, op, k), nil
	case *ast.DeclStmt:
		gd, ok := x.Decl.(*ast.GenDecl)
		if !ok || gd.Tok != token.VAR || len(gd.Specs) != 1 {
			return "", fmt.Errorf("declaration not supported")
		}
		vs := gd.Specs[0].(*ast.ValueSpec)
		if len(vs.Names) != 1 {
			return "", fmt.Errorf("multi-var declaration not supported")
		}
		rhs := "0"
		if len(vs.Values) == 1 {
			var err error
			rhs, err = t.expr(vs.Values[0])
			if err != nil {
				return "", err
			}
		}
		k, err := t.block(rest, after)
		if err != nil {
			return "", err
		}
		return fmt.Sprintf("let %s := %s in\n%s", vs.Names[0].Name, rhs, k), nil
	case *ast.IfStmt:
		if x.Init != nil {
			return "", fmt.Errorf("if with init statement not supported")
		}
		c, err := t.expr(x.Cond)
		if err != nil {
			return "", err
		}
		cont := append(append([]ast.Stmt{}, rest...), after...)
		thenB, err := t.block(x.Body.List, cont)
		if err != nil {
			return "", err
		}
		var elseB string
		switch e := x.Else.(type) {
		case nil:
			elseB, err = t.block(cont, nil)
		case *ast.BlockStmt:
			elseB, err = t.block(e.List, cont)
		case *ast.IfStmt:
			elseB, err = t.block([]ast.Stmt{e}, cont)
		default:
			err = fmt.Errorf("else form not supported")
		}
		if err != nil {
			return "", err
		}
		return fmt.Sprintf("if %s then\n%s\nelse\n%s", c, indent(thenB, "  "), indent(elseB, "  ")), nil
	}
	return "", fmt.Errorf("statement %T not supported (line %d)", st, t.s.Fset.Position(st.Pos()).Line)
}

func (t *trans) expr(e ast.Expr) (string, error) {
	switch x := e.(type) {
	case *ast.ParenExpr:
		return t.expr(x.X)
	case *ast.BasicLit:
		if x.Kind != token.INT {
			return "", fmt.Errorf("literal %s not supported", x.Value)
		}
		v, err := strconv.ParseInt(strings.ReplaceAll(x.Value, "_", ""), 0, 64)
		if err != nil {
			return "", err
		}
		if v < 0 {
			return fmt.Sprintf("(%d)", v), nil
		}
		return fmt.Sprintf("%d", v), nil
	case *ast.Ident:
		if x.Name == "true" || x.Name == "false" {
			return x.Name, nil
		}
		if c, ok := t.consts[x.Name]; ok {
			return c, nil
		}
		return x.Name, nil
	case *ast.SelectorExpr:
		if p, ok := x.X.(*ast.Ident); ok && p.Name == "time" {
			if u, ok := durationUnits[x.Sel.Name]; ok {
				return u, nil
			}
		}
		if c, ok := t.consts[typeName(x)]; ok {
			return c, nil
		}
		return "", fmt.Errorf("selector %s not supported", typeName(x))
	case *ast.UnaryExpr:
		a, err := t.expr(x.X)
		if err != nil {
			return "", err
		}
		switch x.Op {
		case token.SUB:
			return fmt.Sprintf("(- %s)", a), nil
		case token.NOT:
			return fmt.Sprintf("(negb %s)", a), nil
		case token.ADD:
			return a, nil
		}
		return "", fmt.Errorf("unary %s not supported", x.Op)
	case *ast.BinaryExpr:
		a, err := t.expr(x.X)
		if err != nil {
			return "", err
		}
		b, err := t.expr(x.Y)
		if err != nil {
			return "", err
		}
		switch x.Op {
		case token.ADD:
			return fmt.Sprintf("(%s + %s)", a, b), nil
		case token.SUB:
			return fmt.Sprintf("(%s - %s)", a, b), nil
		case token.MUL:
			return fmt.Sprintf("(%s * %s)", a, b), nil
		case token.QUO:
			return fmt.Sprintf("(Z.quot %s %s)", a, b), nil
		case token.REM:
			return fmt.Sprintf("(Z.rem %s %s)", a, b), nil
		case token.LSS:
			return fmt.Sprintf("(%s <? %s)", a, b), nil
		case token.LEQ:
			return fmt.Sprintf("(%s <=? %s)", a, b), nil
		case token.GTR:
			return fmt.Sprintf("(%s >? %s)", a, b), nil
		case token.GEQ:
			return fmt.Sprintf("(%s >=? %s)", a, b), nil
		case token.EQL:
			return fmt.Sprintf("(%s =? %s)", a, b), nil
		case token.NEQ:
			return fmt.Sprintf("(negb (%s =? %s))", a, b), nil
		case token.LAND:
			return fmt.Sprintf("(%s && %s)", a, b), nil
		case token.LOR:
			return fmt.Sprintf("(%s || %s)", a, b), nil
		}
		return "", fmt.Errorf("binary %s not supported", x.Op)
	case *ast.CallExpr:
		fn := typeName(x.Fun)
		if intTypes[fn] && len(x.Args) == 1 { // conversion
			return t.expr(x.Args[0])
		}
		var args []string
		for _, a := range x.Args {
			s, err := t.expr(a)
			if err != nil {
				return "", err
			}
			args = append(args, s)
		}
		switch fn {
		case "min":
			if len(args) == 2 {
				return fmt.Sprintf("(Z.min %s %s)", args[0], args[1]), nil
			}
		case "max":
			if len(args) == 2 {
				return fmt.Sprintf("(Z.max %s %s)", args[0], args[1]), nil
			}
		}
		if cn, ok := t.known[fn]; ok {
			return fmt.Sprintf("(%s %s)", cn, strings.Join(args, " ")), nil
		}
		return "", fmt.Errorf("call to %s not supported", fn)
	}
	return "", fmt.Errorf("expression %T not supported", e)
}

// TranslateExpr translates one expression (for RHS facts).
func (s *SrcFile) TranslateExpr(e ast.Expr, consts, callees map[string]string) (string, error) {
	t := &trans{s: s, known: callees, consts: consts}
	return t.expr(e)
}

// RHS returns the right-hand side expression of the first `ident :=` (or
// `ident =`) inside function fn.
func (s *SrcFile) RHS(fn, ident string) (ast.Expr, error) {
	fd, err := s.FindFunc(fn)
	if err != nil {
		return nil, err
	}
	var found ast.Expr
	ast.Inspect(fd.Body, func(n ast.Node) bool {
		if found != nil {
			return false
		}
		if as, ok := n.(*ast.AssignStmt); ok && len(as.Lhs) == 1 && len(as.Rhs) == 1 {
			if id, ok := as.Lhs[0].(*ast.Ident); ok && id.Name == ident {
				found = as.Rhs[0]
				return false
			}
		}
		return true
	})
	if found == nil {
		return nil, fmt.Errorf("srcfacts: %s: no assignment to %s in %s", s.Path, ident, fn)
	}
	return found, nil
}

// ExprString renders an expression back to Go source text.
func (s *SrcFile) ExprString(e ast.Expr) string {
	return nodeString(s.Fset, e)
}

// Event is one element of a function's source-order event list.
type Event struct {
	Kind string // call | defer | go | return | if | else | endif | for | endfor
	Text string // callee ("recv.Method", "pkg.Func", "f") or return expression text
	Line int
}

// CallOrder flattens the body of fn into source-order events. Nested function
// literals are traversed in place (their calls appear where the literal is
// written), marked by funclit/endfunclit events.
func (s *SrcFile) CallOrder(fn string) ([]Event, error) {
	fd, err := s.FindFunc(fn)
	if err != nil {
		return nil, err
	}
	var evs []Event
	var walk func(n ast.Node)
	line := func(n ast.Node) int { return s.Fset.Position(n.Pos()).Line }
	walkExpr := func(e ast.Expr) {
		if e != nil {
			walk(e)
		}
	}
	walk = func(n ast.Node) {
		switch x := n.(type) {
		case nil:
		case *ast.BlockStmt:
			for _, st := range x.List {
				walk(st)
			}
		case *ast.DeferStmt:
			for _, a := range x.Call.Args {
				walkExpr(a)
			}
			if fl, ok := x.Call.Fun.(*ast.FuncLit); ok {
				evs = append(evs, Event{"defer", "funclit", line(x)})
				walk(fl.Body)
				evs = append(evs, Event{"enddefer", "funclit", line(x)})
			} else {
				evs = append(evs, Event{"defer", calleeName(x.Call.Fun), line(x)})
			}
		case *ast.GoStmt:
			evs = append(evs, Event{"go", calleeName(x.Call.Fun), line(x)})
			if fl, ok := x.Call.Fun.(*ast.FuncLit); ok {
				walk(fl.Body)
				evs = append(evs, Event{"endgo", "funclit", line(x)})
			}
		case *ast.ReturnStmt:
			for _, r := range x.Results {
				walkExpr(r)
			}
			var parts []string
			for _, r := range x.Results {
				parts = append(parts, nodeString(s.Fset, r))
			}
			evs = append(evs, Event{"return", strings.Join(parts, ", "), line(x)})
		case *ast.IfStmt:
			if x.Init != nil {
				walk(x.Init)
			}
			walkExpr(x.Cond)
			evs = append(evs, Event{"if", nodeString(s.Fset, x.Cond), line(x)})
			walk(x.Body)
			if x.Else != nil {
				evs = append(evs, Event{"else", "", line(x.Else)})
				walk(x.Else)
			}
			evs = append(evs, Event{"endif", "", line(x)})
		case *ast.ForStmt:
			if x.Init != nil {
				walk(x.Init)
			}
			evs = append(evs, Event{"for", "", line(x)})
			if x.Cond != nil {
				walkExpr(x.Cond)
			}
			walk(x.Body)
			if x.Post != nil {
				walk(x.Post)
			}
			evs = append(evs, Event{"endfor", "", line(x)})
		case *ast.RangeStmt:
			walkExpr(x.X)
			evs = append(evs, Event{"for", "range", line(x)})
			walk(x.Body)
			evs = append(evs, Event{"endfor", "", line(x)})
		case *ast.CallExpr:
			for _, a := range x.Args {
				walkExpr(a)
			}
			if fl, ok := x.Fun.(*ast.FuncLit); ok {
				walk(fl.Body)
			} else {
				// receiver chain first (a.b().c())
				if se, ok := x.Fun.(*ast.SelectorExpr); ok {
					walkExpr(se.X)
				}
				evs = append(evs, Event{"call", calleeName(x.Fun), line(x)})
			}
		case *ast.FuncLit:
			evs = append(evs, Event{"funclit", "", line(x)})
			walk(x.Body)
			evs = append(evs, Event{"endfunclit", "", line(x)})
		default:
			// generic traversal in source order
			ast.Inspect(n, func(m ast.Node) bool {
				if m == n || m == nil {
					return true
				}
				switch m.(type) {
				case *ast.CallExpr, *ast.FuncLit, *ast.BlockStmt, *ast.DeferStmt, *ast.GoStmt, *ast.ReturnStmt, *ast.IfStmt, *ast.ForStmt, *ast.RangeStmt:
					walk(m)
					return false
				}
				return true
			})
		}
	}
	walk(fd.Body)
	return evs, nil
}

func calleeName(e ast.Expr) string {
	switch x := e.(type) {
	case *ast.Ident:
		return x.Name
	case *ast.SelectorExpr:
		return calleeName(x.X) + "." + x.Sel.Name
	case *ast.CallExpr:
		return calleeName(x.Fun) + "()"
	case *ast.ParenExpr:
		return calleeName(x.X)
	case *ast.IndexExpr:
		return calleeName(x.X)
	case *ast.FuncLit:
		return "funclit"
	case *ast.StarExpr:
		return calleeName(x.X)
	}
	return "?"
}

// EventsCoq renders events as a Coq `list (string * string)`.
func EventsCoq(name string, evs []Event) string {
	var parts []string
	for _, e := range evs {
		parts = append(parts, fmt.Sprintf("(%s, %s)", CoqString(e.Kind), CoqString(e.Text)))
	}
	return fmt.Sprintf("Definition %s : list (string * string) :=\n  [%s]%%string.\n", name, strings.Join(parts, ";\n   "))
}

// CoqString renders an ASCII Go string as a Coq string literal (non-printable
// and non-ASCII bytes are replaced by '?', quotes doubled). Only for facts, never for data.
func CoqString(s string) string {
	var sb strings.Builder
	sb.WriteByte('"')
	for i := 0; i < len(s); i++ {
		c := s[i]
		switch {
		case c == '"':
			sb.WriteString(`""`)
		case c < 32 || c > 126:
			sb.WriteByte('?')
		default:
			sb.WriteByte(c)
		}
	}
	sb.WriteByte('"')
	return sb.String()
}

// IndexOf returns the index of the first event with the given kind and text
// (text compared exactly), or -1.
func IndexOf(evs []Event, kind, text string) int {
	for i, e := range evs {
		if e.Kind == kind && e.Text == text {
			return i
		}
	}
	return -1
}
