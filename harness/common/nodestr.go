package common

import (
	"bytes"
	"go/ast"
	"go/printer"
	"go/token"
)

func nodeString(fset *token.FileSet, n ast.Node) string {
	var b bytes.Buffer
	printer.Fprint(&b, fset, n)
	return b.String()
}
