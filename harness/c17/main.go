// C17: pooled buffers are released exactly once and pool budgets hold.
package main

import (
	"encoding/json"
	"fmt"
	"go/ast"
	"math/rand"
	"runtime"
	"runtime/debug"
	"sort"
	"strings"
	"sync"
	"sync/atomic"

	"context"
	"io"
	"math"
	"time"

	"github.com/prometheus/prometheus/model/labels"
	"google.golang.org/grpc"

	"github.com/thanos-io/thanos/pkg/component"
	"github.com/thanos-io/thanos/pkg/pool"
	"github.com/thanos-io/thanos/pkg/store"
	"github.com/thanos-io/thanos/pkg/store/labelpb"
	"github.com/thanos-io/thanos/pkg/store/storepb"
	storetestutil "github.com/thanos-io/thanos/pkg/store/storepb/testutil"
	"github.com/thanos-io/thanos/zzverif/common"
)

type pop struct {
	G *int `json:"g,omitempty"` // Get(size)
	P *int `json:"p,omitempty"` // Put(k-th outstanding slice)
}

type mop struct {
	New   *bool `json:"new,omitempty"`   // Matcher(); value = sharded
	Close *int  `json:"close,omitempty"` // matcher index
}

// ---- a sharded request through the real ProxyStore ---------------------------------

type fakeStore struct {
	storepb.StoreClient
	frames []*storepb.SeriesResponse
	fail   bool
}

type fakeStream struct {
	grpc.ClientStream
	ctx    context.Context
	frames []*storepb.SeriesResponse
	i      int
}

func (f *fakeStore) Series(ctx context.Context, _ *storepb.SeriesRequest, _ ...grpc.CallOption) (storepb.Store_SeriesClient, error) {
	if f.fail {
		return nil, fmt.Errorf("injected open failure")
	}
	return &fakeStream{ctx: ctx, frames: f.frames}, nil
}

func (s *fakeStream) Recv() (*storepb.SeriesResponse, error) {
	if s.i >= len(s.frames) {
		return nil, io.EOF
	}
	r := s.frames[s.i]
	s.i++
	return r, nil
}
func (s *fakeStream) Context() context.Context { return s.ctx }
func (s *fakeStream) CloseSend() error         { return nil }

type recServer struct {
	storepb.Store_SeriesServer
	n int
}

func (r *recServer) Send(*storepb.SeriesResponse) error { r.n++; return nil }
func (r *recServer) Context() context.Context            { return context.Background() }

type input struct {
	// proxy: Stores fake stores with Series series each; sharded request; Lazy retrieval; Limit on the request
	Stores  int   `json:"stores,omitempty"`
	Series  int   `json:"series,omitempty"`
	Sharded bool  `json:"sharded,omitempty"`
	Lazy    bool  `json:"lazy,omitempty"`
	Limit   int64 `json:"limit,omitempty"`
	Reqs    int   `json:"reqs,omitempty"`  // concurrent requests (default 1)
	Immediate int `json:"immediate,omitempty"` // teardown: series the store delivers before the in-flight one
	// sched / stress: threads of pool operations (Put index = k-th slice the thread still holds)
	Threads [][]pop `json:"threads,omitempty"`
	Sched   []int   `json:"sched,omitempty"` // sched: thread making the next step
	Park    int     `json:"park,omitempty"`  // sched: 1-based index of the schedule step whose Get is parked in the allocation (0 = none)
	Repeat  int     `json:"repeat,omitempty"` // stress: repetitions
	NFail   int   `json:"nfail,omitempty"` // the first NFail stores refuse the stream
	Kind   string  `json:"kind"` // pool | shard | proxy
	Min    int     `json:"min,omitempty"`
	Max    int     `json:"max,omitempty"`
	Factor float64 `json:"factor,omitempty"`
	MaxTot uint64  `json:"max_total,omitempty"`
	Ops    []pop   `json:"ops,omitempty"`
	MOps   []mop   `json:"mops,omitempty"`
}

func coqStrList(name string, xs []string) string {
	q := make([]string, len(xs))
	for i, x := range xs {
		q[i] = common.CoqString(x)
	}
	return fmt.Sprintf("Definition %s : list string := [%s]%%string.\n", name, strings.Join(q, "; "))
}

func facts(repo string, w io.Writer) error {
	s, err := common.ParseSrc(repo, "pkg/pool/pool.go")
	if err != nil {
		return err
	}
	for _, f := range []struct{ fn, name string }{{"BucketedPool.Get", "poolGetEvents"}, {"BucketedPool.Put", "poolPutEvents"}} {
		evs, err := s.CallOrder(f.fn)
		if err != nil {
			return err
		}
		fmt.Fprintln(w, common.EventsCoq(f.name, evs))
	}
	// the additions to / subtractions from usedTotal in Get and Put
	var upd []string
	for _, fn := range []string{"BucketedPool.Get", "BucketedPool.Put"} {
		fd, err := s.FindFunc(fn)
		if err != nil {
			return err
		}
		ast.Inspect(fd.Body, func(n ast.Node) bool {
			if as, ok := n.(*ast.AssignStmt); ok && len(as.Lhs) == 1 && len(as.Rhs) == 1 {
				if strings.Contains(s.ExprString(as.Lhs[0]), "usedTotal") {
					upd = append(upd, s.ExprString(as.Lhs[0])+" "+as.Tok.String()+" "+s.ExprString(as.Rhs[0]))
				}
			}
			return true
		})
	}
	fmt.Fprint(w, coqStrList("poolUsedTotalUpdates", upd))
	s2, err := common.ParseSrc(repo, "pkg/store/storepb/shard_info.go")
	if err != nil {
		return err
	}
	evs, err := s2.CallOrder("ShardMatcher.Close")
	if err != nil {
		return err
	}
	fmt.Fprintln(w, common.EventsCoq("shardMatcherCloseEvents", evs))
	fd, err := s2.FindFunc("ShardMatcher.Close")
	if err != nil {
		return err
	}
	var closeAssigns []string
	ast.Inspect(fd.Body, func(n ast.Node) bool {
		if as, ok := n.(*ast.AssignStmt); ok && len(as.Lhs) == 1 && len(as.Rhs) == 1 {
			closeAssigns = append(closeAssigns, s2.ExprString(as.Lhs[0])+" "+as.Tok.String()+" "+s2.ExprString(as.Rhs[0]))
		}
		return true
	})
	fmt.Fprint(w, coqStrList("shardMatcherCloseAssigns", closeAssigns))
	// the two places from which a respSet (hence its ShardMatcher) is closed in the proxy
	s3, err := common.ParseSrc(repo, "pkg/store/proxy.go")
	if err != nil {
		return err
	}
	evs3, err := s3.CallOrder("ProxyStore.Series")
	if err != nil {
		return err
	}
	var defers []string
	for _, e := range evs3 {
		if e.Kind == "defer" {
			defers = append(defers, e.Text)
		}
	}
	fmt.Fprint(w, coqStrList("proxySeriesDefers", defers))
	s4, err := common.ParseSrc(repo, "pkg/store/proxy_merge.go")
	if err != nil {
		return err
	}
	evs4, err := s4.CallOrder("NewProxyResponseLoserTree")
	if err != nil {
		return err
	}
	var calls []string
	for _, e := range evs4 {
		if e.Kind == "call" && strings.HasSuffix(e.Text, ".Close") {
			calls = append(calls, e.Text)
		}
	}
	fmt.Fprint(w, coqStrList("loserTreeCloseCalls", calls))
	for _, fn := range []struct{ f, n string }{{"lazyRespSet.Close", "lazyRespSetCloseCalls"}, {"eagerRespSet.Close", "eagerRespSetCloseCalls"}} {
		evs, err := s4.CallOrder(fn.f)
		if err != nil {
			return err
		}
		var cs []string
		for _, e := range evs {
			if e.Kind == "call" {
				cs = append(cs, e.Text)
			}
		}
		fmt.Fprint(w, coqStrList(fn.n, cs))
	}
	// every place where the loser tree calls its close callback
	s5, err := common.ParseSrc(repo, "pkg/losertree/tree.go")
	if err != nil {
		return err
	}
	var treeCloses []string
	for _, d := range s5.File.Decls {
		fd, ok := d.(*ast.FuncDecl)
		if !ok || fd.Body == nil {
			continue
		}
		ast.Inspect(fd.Body, func(n ast.Node) bool {
			if ce, ok := n.(*ast.CallExpr); ok {
				if se, ok := ce.Fun.(*ast.SelectorExpr); ok && se.Sel.Name == "close" && len(ce.Args) == 1 {
					treeCloses = append(treeCloses, fd.Name.Name+": "+s5.ExprString(ce.Fun)+"("+s5.ExprString(ce.Args[0])+")")
				}
			}
			return true
		})
	}
	fmt.Fprint(w, coqStrList("loserTreeCloseSites", treeCloses))
	// Close calls on response sets / the loser tree in the two Series implementations, and none in newAsyncRespSet
	closeCalls := func(sf *common.SrcFile, fn string) ([]string, error) {
		evs, err := sf.CallOrder(fn)
		if err != nil {
			return nil, err
		}
		var out []string
		for _, e := range evs {
			if (e.Kind == "call" || e.Kind == "defer") && strings.HasSuffix(e.Text, ".Close") {
				out = append(out, e.Kind+" "+e.Text)
			}
		}
		return out, nil
	}
	pc, err := closeCalls(s3, "ProxyStore.Series")
	if err != nil {
		return err
	}
	fmt.Fprint(w, coqStrList("proxySeriesCloseCalls", pc))
	s6, err := common.ParseSrc(repo, "pkg/store/bucket.go")
	if err != nil {
		return err
	}
	bc, err := closeCalls(s6, "BucketStore.Series")
	if err != nil {
		return err
	}
	fmt.Fprint(w, coqStrList("bucketSeriesCloseCalls", bc))
	ac, err := closeCalls(s4, "newAsyncRespSet")
	if err != nil {
		return err
	}
	fmt.Fprint(w, coqStrList("newAsyncRespSetCloseCalls", ac))
	// the statements of the two Close methods, in source order (the wait for the receive goroutine is a
	// channel receive in one of them, so calls alone would not show it)
	for _, cm := range []struct{ fn, name string }{{"lazyRespSet.Close", "lazyCloseStmts"}, {"eagerRespSet.Close", "eagerCloseStmts"}} {
		fd, err := s4.FindFunc(cm.fn)
		if err != nil {
			return err
		}
		var render func(st ast.Stmt) (string, error)
		render = func(st ast.Stmt) (string, error) {
			switch x := st.(type) {
			case *ast.ExprStmt:
				return s4.ExprString(x.X), nil
			case *ast.AssignStmt:
				var l, r []string
				for _, e := range x.Lhs {
					l = append(l, s4.ExprString(e))
				}
				for _, e := range x.Rhs {
					r = append(r, s4.ExprString(e))
				}
				return strings.Join(l, ", ") + " " + x.Tok.String() + " " + strings.Join(r, ", "), nil
			case *ast.IfStmt:
				if x.Init != nil || x.Else != nil {
					return "", fmt.Errorf("srcfacts: %s: if with init/else not supported", cm.fn)
				}
				var in []string
				for _, b := range x.Body.List {
					t, err := render(b)
					if err != nil {
						return "", err
					}
					in = append(in, t)
				}
				return "if " + s4.ExprString(x.Cond) + " { " + strings.Join(in, "; ") + " }", nil
			case *ast.DeferStmt:
				return "defer " + s4.ExprString(x.Call), nil
			}
			return "", fmt.Errorf("srcfacts: %s: statement %T not supported", cm.fn, st)
		}
		var stmts []string
		for _, st := range fd.Body.List {
			t, err := render(st)
			if err != nil {
				return err
			}
			stmts = append(stmts, t)
		}
		fmt.Fprint(w, coqStrList(cm.name, stmts))
	}
	aevs, err := s4.CallOrder("newAsyncRespSet")
	if err != nil {
		return err
	}
	var head []common.Event
	for _, e := range aevs { // up to the end of the first error branch
		head = append(head, e)
		if e.Kind == "endif" && len(head) > 3 {
			hasRet := false
			for _, h := range head {
				if h.Kind == "return" {
					hasRet = true
				}
			}
			if hasRet {
				break
			}
		}
	}
	fmt.Fprintln(w, common.EventsCoq("newAsyncRespSetOpenEvents", head))
	return nil
}

func nList(xs []uint64) string {
	s := make([]string, len(xs))
	for i, x := range xs {
		s[i] = common.N(x)
	}
	return common.List(s)
}

func run(raw json.RawMessage) (common.Case, error) {
	var in input
	if err := json.Unmarshal(raw, &in); err != nil {
		return common.Case{}, err
	}
	var c common.Case
	switch in.Kind {
	case "pool":
		p, err := pool.NewBucketedPool[byte](in.Min, in.Max, in.Factor, in.MaxTot)
		if err != nil {
			return c, err
		}
		var sizes []uint64
		for _, s := range p.VerifC17Sizes() {
			sizes = append(sizes, uint64(s))
		}
		var outst []*[]byte
		var ops, obs []string
		type ob struct {
			Ok   bool   `json:"ok"`
			Cap  uint64 `json:"cap"`
			Used uint64 `json:"used"`
		}
		var obsv []ob
		var outCaps uint64
		maxSeen := uint64(0)
		for _, o := range in.Ops {
			if o.G != nil {
				b, err := p.Get(*o.G)
				var cp uint64
				if err == nil {
					cp = uint64(cap(*b))
					outst = append(outst, b)
					outCaps += cp
				}
				u := p.UsedBytes()
				ops = append(ops, common.App("PGet", common.N(uint64(*o.G))))
				obs = append(obs, common.Tuple(common.Bool(err == nil), common.N(cp), common.N(u)))
				obsv = append(obsv, ob{err == nil, cp, u})
			} else if o.P != nil {
				k := *o.P
				if k < 0 || k >= len(outst) {
					continue
				}
				outCaps -= uint64(cap(*outst[k]))
				p.Put(outst[k])
				outst = append(outst[:k], outst[k+1:]...)
				u := p.UsedBytes()
				ops = append(ops, common.App("PPut", common.Nat(k)))
				obs = append(obs, common.Tuple("true", common.N(0), common.N(u)))
				obsv = append(obsv, ob{true, 0, u})
			}
			u := p.UsedBytes()
			if u > maxSeen {
				maxSeen = u
			}
			if in.MaxTot > 0 && u > in.MaxTot && c.GoPred == "" {
				c.GoPred = fmt.Sprintf("UsedBytes %d exceeds maxTotal %d", u, in.MaxTot)
				c.Sig = "used-exceeds-max"
			}
			if u != outCaps && c.GoPred == "" {
				c.GoPred = fmt.Sprintf("UsedBytes %d differs from the capacities handed out %d", u, outCaps)
				c.Sig = "used-not-outstanding"
			}
		}
		c.Coq = common.App("CPool", nList(sizes), common.N(in.MaxTot), common.List(ops), common.List(obs))
		c.Obs = map[string]any{"sizes": sizes, "obs": obsv}
		c.Class = "pool"
		if in.MaxTot == 0 {
			c.Class = "pool/unbounded"
		}
		c.Nontrivial = in.MaxTot > 0 && len(ops) >= 3
		return c, nil
	case "teardown":
		return runTeardown(in)
	case "sched":
		return runSched(in)
	case "stress":
		return runStress(in)
	case "proxy":
		runtime.GOMAXPROCS(1)
		old := debug.SetGCPercent(-1)
		defer debug.SetGCPercent(old)
		var clients []store.Client
		for i := 0; i < in.Stores; i++ {
			fs := &fakeStore{fail: i < in.NFail}
			for j := 0; j < in.Series; j++ {
				fs.frames = append(fs.frames, storepb.NewSeriesResponse(&storepb.Series{
					Labels: []labelpb.ZLabel{{Name: "a", Value: fmt.Sprintf("s%02d_%03d", i, j)}},
					Chunks: []storepb.AggrChunk{{MinTime: 1, MaxTime: 2, Raw: &storepb.Chunk{Data: []byte{byte(i), byte(j)}}}},
				}))
			}
			clients = append(clients, &storetestutil.TestClient{StoreClient: fs, Name: fmt.Sprintf("store%d", i),
				MinTime: math.MinInt64, MaxTime: math.MaxInt64})
		}
		strategy := store.EagerRetrieval
		if in.Lazy {
			strategy = store.LazyRetrieval
		}
		p := store.NewProxyStore(nil, nil, func() []store.Client { return clients }, component.Query, labels.EmptyLabels(),
			10*time.Second, strategy)
		req := &storepb.SeriesRequest{MinTime: 0, MaxTime: 1000,
			Matchers: []storepb.LabelMatcher{{Type: storepb.LabelMatcher_NEQ, Name: "__verif__", Value: "x"}},
			Limit:    in.Limit, PartialResponseStrategy: storepb.PartialResponseStrategy_WARN}
		if in.Sharded {
			req.ShardInfo = &storepb.ShardInfo{ShardIndex: 0, TotalShards: 2, By: true, Labels: []string{"a"}}
		}
		reqs := in.Reqs
		if reqs < 1 {
			reqs = 1
		}
		var wg sync.WaitGroup
		errs := make([]error, reqs)
		nresp := make([]int, reqs)
		for q := 0; q < reqs; q++ {
			wg.Add(1)
			go func(q int) {
				defer wg.Done()
				srv := &recServer{}
				rq := *req
				errs[q] = p.Series(&rq, srv)
				nresp[q] = srv.n
			}(q)
		}
		wg.Wait()
		for _, e := range errs {
			if e != nil {
				return c, fmt.Errorf("proxy Series: %w", e)
			}
		}
		srv := &recServer{n: nresp[0]}
		// take more buffers out of the proxy's pool than the request can have put back: a pointer
		// that comes out twice was put twice
		seenPtr := map[*[]byte]int{}
		dup := false
		for k := 0; k < 2*in.Stores*reqs+3; k++ {
			b := p.VerifC17TakeBuffer()
			seenPtr[b]++
			if seenPtr[b] > 1 {
				dup = true
			}
		}
		c.Coq = common.App("CProxy", common.Nat(reqs), common.Nat(in.Stores), common.Nat(in.NFail), common.Bool(in.Sharded), common.Bool(dup))
		c.Obs = map[string]any{"responses": srv.n, "buffer_taken_twice": dup}
		c.Class = "proxy"
		if in.Sharded {
			c.Class = "proxy/sharded"
		}
		c.Nontrivial = in.Sharded && in.Stores >= 1
		if dup {
			c.GoPred = "after a sharded ProxyStore.Series request the same buffer came out of the proxy's pool twice"
			c.Sig = "proxy-buffer-twice"
		}
		return c, nil
	case "shard":
		runtime.GOMAXPROCS(1)
		old := debug.SetGCPercent(-1)
		defer debug.SetGCPercent(old)
		ids := map[*[]byte]uint64{}
		var next uint64
		made := false
		bp := sync.Pool{New: func() any {
			b := make([]byte, 0, 16)
			ids[&b] = next
			next++
			made = true
			return &b
		}}
		var ms []*storepb.ShardMatcher
		var ops []string
		var seen []any
		for _, o := range in.MOps {
			if o.New != nil {
				var si *storepb.ShardInfo
				if *o.New {
					si = &storepb.ShardInfo{ShardIndex: 0, TotalShards: 2, By: true, Labels: []string{"a"}}
				}
				m := si.Matcher(&bp)
				ms = append(ms, m)
				var id uint64
				if b := m.VerifC17Buf(); b != nil {
					id = ids[b]
				}
				ops = append(ops, common.App("MNew", common.Bool(*o.New), common.N(id)))
				seen = append(seen, id)
			} else if o.Close != nil {
				if *o.Close < 0 || *o.Close >= len(ms) {
					continue
				}
				ms[*o.Close].Close()
				ops = append(ops, common.App("MClose", common.Nat(*o.Close)))
			}
		}
		// drain the pool
		var drained []uint64
		for {
			made = false
			b := bp.Get().(*[]byte)
			if made {
				break
			}
			drained = append(drained, ids[b])
			if len(drained) > 10000 {
				return c, fmt.Errorf("pool does not drain")
			}
		}
		sort.Slice(drained, func(i, j int) bool { return drained[i] < drained[j] })
		c.Coq = common.App("CShard", common.List(ops), nList(drained))
		c.Obs = map[string]any{"buffers_seen": seen, "drained": drained}
		c.Class = "shard"
		c.Nontrivial = len(drained) >= 1 && len(ops) >= 3
		for i := 1; i < len(drained); i++ {
			if drained[i] == drained[i-1] {
				c.GoPred = fmt.Sprintf("buffer %d is in the pool twice", drained[i])
				c.Sig = "buffer-twice"
			}
		}
		return c, nil
	}
	return c, fmt.Errorf("bad kind %q", in.Kind)
}

// ---- early teardown of a sharded request while a message is in flight ---------------------------

// tdStream delivers `immediate` series at once. The next Recv is a message in flight when the
// request is torn down: it waits until the stream's context is cancelled (the first thing
// respSet.Close does), gives Close the chance to reach CloseSend (bounded wait: Close as written
// only gets there after the receive goroutine is done, so the bound just elapses), and only then
// hands out the in-flight series. Then io.EOF.
type tdStream struct {
	grpc.ClientStream
	ctx       context.Context
	immediate []*storepb.SeriesResponse
	inflight  *storepb.SeriesResponse

	mtx       sync.Mutex
	recvCalls int
	recvEnded bool

	once        sync.Once
	closeSendc  chan struct{}
	onCloseSend func(recvEnded bool)
}

func (c *tdStream) Context() context.Context { return c.ctx }
func (c *tdStream) CloseSend() error {
	c.once.Do(func() {
		c.mtx.Lock()
		ended := c.recvEnded
		c.mtx.Unlock()
		c.onCloseSend(ended)
		close(c.closeSendc)
	})
	return nil
}
func (c *tdStream) Recv() (*storepb.SeriesResponse, error) {
	c.mtx.Lock()
	n := c.recvCalls
	c.recvCalls++
	c.mtx.Unlock()
	switch {
	case n < len(c.immediate):
		return c.immediate[n], nil
	case n == len(c.immediate):
		<-c.ctx.Done()
		select {
		case <-c.closeSendc:
		case <-time.After(250 * time.Millisecond):
		}
		return c.inflight, nil
	}
	c.mtx.Lock()
	c.recvEnded = true
	c.mtx.Unlock()
	return nil, io.EOF
}

type tdStoreClient struct {
	storepb.StoreClient
	series func(ctx context.Context) (storepb.Store_SeriesClient, error)
}

func (c *tdStoreClient) Series(ctx context.Context, _ *storepb.SeriesRequest, _ ...grpc.CallOption) (storepb.Store_SeriesClient, error) {
	return c.series(ctx)
}

type tdServer struct {
	storepb.Store_SeriesServer
	send func(*storepb.SeriesResponse) error
}

func (s *tdServer) Send(r *storepb.SeriesResponse) error { return s.send(r) }
func (s *tdServer) Context() context.Context             { return context.Background() }

func tdSeries(v string) *storepb.SeriesResponse {
	return storepb.NewSeriesResponse(&storepb.Series{Labels: []labelpb.ZLabel{{Name: "a", Value: v}, {Name: "ext", Value: "1"}}})
}

func runTeardown(in input) (common.Case, error) {
	var c common.Case
	runtime.GOMAXPROCS(1)
	defer debug.SetGCPercent(debug.SetGCPercent(-1))
	var p *store.ProxyStore
	var taken *[]byte
	early, hooked := false, false
	hook := func(recvEnded bool) {
		// the next request arrives right now: it takes a buffer out of the proxy's pool like ShardInfo.Matcher does
		hooked = true
		early = !recvEnded
		b := p.VerifC17TakeBuffer()
		*b = (*b)[:0]
		taken = b
	}
	mk := func(name string, series func(ctx context.Context) (storepb.Store_SeriesClient, error)) store.Client {
		return &storetestutil.TestClient{StoreClient: &tdStoreClient{series: series}, Name: name,
			ExtLset: []labels.Labels{labels.FromStrings("ext", "1")}, MinTime: 0, MaxTime: 100, Shardable: false}
	}
	var imm []*storepb.SeriesResponse
	for i := 0; i < in.Immediate; i++ {
		imm = append(imm, tdSeries(fmt.Sprintf("%02d", i+1)))
	}
	cl1 := mk("store-1", func(ctx context.Context) (storepb.Store_SeriesClient, error) {
		return &tdStream{ctx: ctx, immediate: imm, inflight: tdSeries("in-flight"), closeSendc: make(chan struct{}), onCloseSend: hook}, nil
	})
	req := &storepb.SeriesRequest{MinTime: 0, MaxTime: 100,
		Matchers:                []storepb.LabelMatcher{{Type: storepb.LabelMatcher_RE, Name: "a", Value: ".+"}},
		PartialResponseDisabled: true, PartialResponseStrategy: storepb.PartialResponseStrategy_ABORT,
		ShardInfo:               &storepb.ShardInfo{TotalShards: 1, ShardIndex: 0, By: true, Labels: []string{"a"}}}
	var err error
	if in.Lazy {
		// the downstream client goes away: Send fails on the first series
		p = store.NewProxyStore(nil, nil, func() []store.Client { return []store.Client{cl1} }, component.Query, labels.EmptyLabels(), 0, store.LazyRetrieval, store.WithoutDedup())
		err = p.Series(req, &tdServer{send: func(*storepb.SeriesResponse) error { return fmt.Errorf("client went away") }})
	} else {
		// a second store cannot be reached and partial responses are disabled
		cl2 := mk("store-2", func(context.Context) (storepb.Store_SeriesClient, error) { return nil, fmt.Errorf("connection refused") })
		p = store.NewProxyStore(nil, nil, func() []store.Client { return []store.Client{cl1, cl2} }, component.Query, labels.EmptyLabels(), 0, store.EagerRetrieval)
		err = p.Series(req, &tdServer{send: func(*storepb.SeriesResponse) error { return nil }})
	}
	if err == nil {
		return c, fmt.Errorf("teardown set-up: Series was expected to fail")
	}
	if !hooked {
		return c, fmt.Errorf("teardown set-up: CloseSend was never called")
	}
	written := len(*taken) != 0
	c.Coq = common.App("CTeardown", common.Bool(in.Lazy), common.Nat(in.Immediate), common.Bool(early), common.Bool(written))
	c.Obs = map[string]any{"close_send_before_receiver_ended": early, "taken_buffer_content": string(*taken)}
	c.Class = "teardown/eager"
	if in.Lazy {
		c.Class = "teardown/lazy"
	}
	c.Nontrivial = true
	if written {
		c.GoPred = fmt.Sprintf("the buffer taken from the proxy's pool by the next request was written by the receive goroutine of the previous, still running request: %q", string(*taken))
		c.Sig = "buffer-released-before-receiver-stopped"
	}
	return c, nil
}

func threadsCoq(ths [][]pop) string {
	var ts []string
	for _, th := range ths {
		var os []string
		for _, o := range th {
			if o.G != nil {
				os = append(os, common.App("TGet", common.N(uint64(*o.G))))
			} else if o.P != nil {
				os = append(os, common.App("TPut", common.Nat(*o.P)))
			}
		}
		ts = append(ts, common.List(os))
	}
	return common.List(ts)
}

func cleanThreads(ths [][]pop) [][]pop {
	out := make([][]pop, len(ths))
	for i, th := range ths {
		for _, o := range th {
			if (o.G != nil && *o.G >= 0) || (o.P != nil && *o.P >= 0) {
				out[i] = append(out[i], o)
			}
		}
	}
	return out
}

// runSched executes the threads' operations one at a time in schedule order on one real pool.
// The Get of step Park is parked inside the pool's allocation function; while it is parked the
// following steps of OTHER threads are executed if (and only if) the pool's lock is free.
func runSched(in input) (common.Case, error) {
	var c common.Case
	p, err := pool.NewBucketedPool[byte](in.Min, in.Max, in.Factor, in.MaxTot)
	if err != nil {
		return c, err
	}
	var sizes []uint64
	for _, s := range p.VerifC17Sizes() {
		sizes = append(sizes, uint64(s))
	}
	ths := cleanThreads(in.Threads)
	held := make([][]*[]byte, len(ths))
	pcs := make([]int, len(ths))
	type ob struct {
		Ok   bool   `json:"ok"`
		Cap  uint64 `json:"cap"`
		Used uint64 `json:"used"`
	}
	obs := make([]ob, len(in.Sched))
	var parkNow atomic.Bool
	entered, release := make(chan struct{}), make(chan struct{})
	var orig func(int) *[]byte
	orig = p.VerifC17SetNew(func(sz int) *[]byte {
		if parkNow.CompareAndSwap(true, false) {
			close(entered)
			<-release
		}
		return orig(sz)
	})
	outstanding := func() uint64 {
		var t uint64
		for _, h := range held {
			for _, b := range h {
				t += uint64(cap(*b))
			}
		}
		return t
	}
	check := func(where string) {
		if c.GoPred != "" || in.MaxTot == 0 {
			return
		}
		if o := outstanding(); o > in.MaxTot {
			c.GoPred = fmt.Sprintf("%d bytes are checked out at the same time, maxTotal is %d (%s)", o, in.MaxTot, where)
			c.Sig = "concurrent-budget-exceeded"
		} else if u := p.UsedBytes(); u > in.MaxTot {
			c.GoPred = fmt.Sprintf("UsedBytes %d exceeds maxTotal %d (%s)", u, in.MaxTot, where)
			c.Sig = "concurrent-budget-exceeded"
		}
	}
	// plain executes the next operation of thread i
	plain := func(idx, i int) {
		if i < 0 || i >= len(ths) || pcs[i] >= len(ths[i]) {
			obs[idx] = ob{true, 0, p.UsedBytes()}
			return
		}
		o := ths[i][pcs[i]]
		pcs[i]++
		if o.G != nil {
			b, err := p.Get(*o.G)
			if err == nil {
				held[i] = append(held[i], b)
				obs[idx] = ob{true, uint64(cap(*b)), p.UsedBytes()}
			} else {
				obs[idx] = ob{false, 0, p.UsedBytes()}
			}
		} else {
			k := *o.P
			if k < len(held[i]) {
				b := held[i][k]
				held[i] = append(held[i][:k], held[i][k+1:]...)
				p.Put(b)
			}
			obs[idx] = ob{true, 0, p.UsedBytes()}
		}
		check(fmt.Sprintf("after step %d", idx+1))
	}
	overlapped := false
	for idx := 0; idx < len(in.Sched); idx++ {
		i := in.Sched[idx]
		parkable := idx+1 == in.Park && i >= 0 && i < len(ths) && pcs[i] < len(ths[i]) && ths[i][pcs[i]].G != nil
		if !parkable {
			plain(idx, i)
			continue
		}
		o := ths[i][pcs[i]]
		pcs[i]++
		type res struct {
			b   *[]byte
			err error
		}
		resCh := make(chan res, 1)
		parkNow.Store(true)
		go func() {
			b, err := p.Get(*o.G)
			resCh <- res{b, err}
		}()
		var r res
		select {
		case r = <-resCh: // the allocation function was not called: nothing to park
			parkNow.Store(false)
		case <-entered:
			last := idx
			if p.VerifC17LockFree() {
				// the pool's lock is free while this Get sits between its budget test and its accounting
				overlapped = true
				for last+1 < len(in.Sched) && in.Sched[last+1] != i {
					last++
					plain(last, in.Sched[last])
				}
			}
			close(release)
			r = <-resCh
			if r.err == nil {
				held[i] = append(held[i], r.b)
				obs[idx] = ob{true, uint64(cap(*r.b)), p.UsedBytes()}
			} else {
				obs[idx] = ob{false, 0, p.UsedBytes()}
			}
			check(fmt.Sprintf("after the parked step %d", idx+1))
			idx = last
			continue
		}
		if r.err == nil {
			held[i] = append(held[i], r.b)
			obs[idx] = ob{true, uint64(cap(*r.b)), p.UsedBytes()}
		} else {
			obs[idx] = ob{false, 0, p.UsedBytes()}
		}
		check(fmt.Sprintf("after step %d", idx+1))
	}
	var oc []string
	for _, o := range obs {
		oc = append(oc, common.Tuple(common.Bool(o.Ok), common.N(o.Cap), common.N(o.Used)))
	}
	var sc []string
	for _, i := range in.Sched {
		if i < 0 {
			i = 1 << 20
		}
		sc = append(sc, common.Nat(i))
	}
	c.Coq = common.App("CSched", nList(sizes), common.N(in.MaxTot), threadsCoq(ths), common.List(sc), common.List(oc))
	c.Obs = map[string]any{"sizes": sizes, "obs": obs, "ran_during_parked_get": overlapped}
	c.Class = "sched"
	if in.Park > 0 {
		c.Class = "sched/parked"
	}
	c.Nontrivial = in.MaxTot > 0 && len(ths) >= 2 && len(in.Sched) >= 3
	return c, nil
}

// runStress releases the threads together through a barrier on a fresh pool, Repeat times.
func runStress(in input) (common.Case, error) {
	var c common.Case
	runtime.GOMAXPROCS(4)
	ths := cleanThreads(in.Threads)
	var sizes []uint64
	var maxOut, maxUsed, maxFinal uint64
	reps := in.Repeat
	if reps < 1 {
		reps = 1
	}
	for rep := 0; rep < reps; rep++ {
		p, err := pool.NewBucketedPool[byte](in.Min, in.Max, in.Factor, in.MaxTot)
		if err != nil {
			return c, err
		}
		if rep == 0 {
			for _, s := range p.VerifC17Sizes() {
				sizes = append(sizes, uint64(s))
			}
		}
		var orig func(int) *[]byte
		orig = p.VerifC17SetNew(func(sz int) *[]byte { runtime.Gosched(); return orig(sz) })
		var out atomic.Uint64
		var mOut, mUsed atomic.Uint64
		upd := func(m *atomic.Uint64, v uint64) {
			for {
				o := m.Load()
				if v <= o || m.CompareAndSwap(o, v) {
					return
				}
			}
		}
		start := make(chan struct{})
		var wg sync.WaitGroup
		for i := range ths {
			wg.Add(1)
			go func(ops []pop) {
				defer wg.Done()
				var held []*[]byte
				<-start
				for _, o := range ops {
					if o.G != nil {
						if b, err := p.Get(*o.G); err == nil {
							held = append(held, b)
							upd(&mOut, out.Add(uint64(cap(*b))))
						}
					} else if k := *o.P; k < len(held) {
						b := held[k]
						held = append(held[:k], held[k+1:]...)
						out.Add(^uint64(cap(*b) - 1))
						p.Put(b)
					}
					upd(&mUsed, p.UsedBytes())
				}
				for _, b := range held {
					out.Add(^uint64(cap(*b) - 1))
					p.Put(b)
				}
			}(ths[i])
		}
		close(start)
		wg.Wait()
		if v := mOut.Load(); v > maxOut {
			maxOut = v
		}
		if v := mUsed.Load(); v > maxUsed {
			maxUsed = v
		}
		if v := p.UsedBytes(); v > maxFinal {
			maxFinal = v
		}
	}
	exceeded := in.MaxTot > 0 && (maxOut > in.MaxTot || maxUsed > in.MaxTot)
	c.Coq = common.App("CStress", nList(sizes), common.N(in.MaxTot), threadsCoq(ths), common.Bool(exceeded), common.N(maxFinal))
	c.Obs = map[string]any{"sizes": sizes, "repetitions": reps, "max_checked_out": maxOut, "max_used_bytes": maxUsed, "final_used_bytes": maxFinal}
	c.Class = "stress"
	c.Nontrivial = in.MaxTot > 0 && len(ths) >= 2
	if exceeded {
		c.GoPred = fmt.Sprintf("with %d goroutines released together, up to %d bytes were checked out and UsedBytes reached %d; maxTotal is %d", len(ths), maxOut, maxUsed, in.MaxTot)
		c.Sig = "concurrent-budget-exceeded"
	} else if maxFinal != 0 {
		c.GoPred = fmt.Sprintf("UsedBytes is %d after every slice was returned", maxFinal)
		c.Sig = "concurrent-not-zero"
	}
	return c, nil
}

func genThreads(r *rand.Rand, in *input, maxOps int) {
	in.Factor = 2
	in.Min = common.Pick(r, 10, 8, 16, 5)
	in.Max = in.Min * common.Pick(r, 8, 10, 16)
	nt := 2 + r.Intn(3)
	big := in.Min * 8
	// budget tight enough that only one of the big requests fits
	in.MaxTot = uint64(big + r.Intn(big))
	if r.Intn(8) == 0 {
		in.MaxTot = uint64(3*big + r.Intn(big))
	}
	ip := func(v int) *int { return &v }
	for t := 0; t < nt; t++ {
		var ops []pop
		heldN := 0
		k := 1 + r.Intn(maxOps)
		for j := 0; j < k; j++ {
			if heldN > 0 && r.Intn(3) == 0 {
				ops = append(ops, pop{P: ip(r.Intn(heldN))})
				heldN--
				continue
			}
			sz := common.Pick(r, big, big-1, big/2+1, big/2, in.Min, in.Max+5, 1+r.Intn(in.Max))
			ops = append(ops, pop{G: ip(sz)})
			heldN++
		}
		in.Threads = append(in.Threads, ops)
	}
}

func gen(r *rand.Rand, tier string, n int) []any {
	var out []any
	maxOps := 14
	if tier == "thorough" {
		maxOps = 60
	}
	ip := func(v int) *int { return &v }
	for i := 0; i < n/10; i++ { // threads on one pool, executed in schedule order with one Get parked in the allocation
		in := input{Kind: "sched"}
		genThreads(r, &in, 4)
		left := make([]int, len(in.Threads))
		tot := 0
		for t, th := range in.Threads {
			left[t] = len(th)
			tot += len(th)
		}
		pos := make([]int, len(in.Threads))
		var getSteps []int
		for tot > 0 {
			t := r.Intn(len(left))
			if left[t] == 0 {
				continue
			}
			if in.Threads[t][pos[t]].G != nil {
				getSteps = append(getSteps, len(in.Sched)+1)
			}
			pos[t]++
			in.Sched = append(in.Sched, t)
			left[t]--
			tot--
		}
		if len(getSteps) > 0 && r.Intn(6) != 0 {
			in.Park = getSteps[r.Intn(len(getSteps))]
			if r.Intn(2) == 0 {
				in.Park = getSteps[0]
			}
		}
		out = append(out, in)
	}
	nTd := 6
	if tier == "thorough" {
		nTd = 40
	}
	for i := 0; i < nTd; i++ {
		in := input{Kind: "teardown", Lazy: i%2 == 0, Immediate: r.Intn(4)}
		if in.Lazy && in.Immediate == 0 {
			in.Immediate = 1 + r.Intn(3) // the failing Send needs a first series
		}
		out = append(out, in)
	}
	nStress := n / 40
	for i := 0; i < nStress; i++ {
		in := input{Kind: "stress", Repeat: 60}
		if tier == "thorough" {
			in.Repeat = 200
		}
		genThreads(r, &in, 3)
		out = append(out, in)
	}
	for i := 0; i < n/20; i++ {
		in := input{Kind: "proxy", Stores: 1 + r.Intn(5), Series: r.Intn(6), Sharded: r.Intn(4) != 0, Lazy: r.Intn(2) == 0, Reqs: 1 + r.Intn(3)}
		if r.Intn(3) == 0 {
			in.NFail = r.Intn(in.Stores + 1)
		}
		if r.Intn(4) == 0 {
			in.Limit = int64(1 + r.Intn(4))
		}
		out = append(out, in)
	}
	for i := 0; i < n-n/20-n/10-nStress; i++ {
		if r.Intn(4) != 0 {
			in := input{Kind: "pool", Factor: common.Pick(r, 2.0, 2.0, 1.5, 3.0, 1.0)}
			in.Min = 1 + r.Intn(16)
			in.Max = in.Min + r.Intn(200)
			if in.Factor == 1.0 { // int(float64(s)*1) never grows: the loop in the constructor would not end
				in.Factor = 2.0
			}
			if in.Factor == 1.5 && in.Min == 1 { // int(1*1.5) = 1: same
				in.Min = 2
				if in.Max < in.Min {
					in.Max = in.Min
				}
			}
			budget := uint64(r.Intn(3 * (in.Max + 1)))
			if r.Intn(6) == 0 {
				budget = 0
			}
			in.MaxTot = budget
			outst := 0
			k := r.Intn(maxOps)
			for j := 0; j < k; j++ {
				if outst > 0 && r.Intn(5) < 2 {
					in.Ops = append(in.Ops, pop{P: ip(r.Intn(outst))})
					outst--
					continue
				}
				var sz int
				switch r.Intn(5) {
				case 0:
					sz = r.Intn(in.Max + 40) // also beyond the largest bucket
				case 1:
					sz = in.Min<<uint(r.Intn(4)) + r.Intn(3) - 1 // around bucket sizes
				default:
					sz = r.Intn(in.Max + 1)
				}
				if sz < 0 {
					sz = 0
				}
				in.Ops = append(in.Ops, pop{G: ip(sz)})
				outst++ // may fail; Put indices out of range are skipped by the harness
			}
			if r.Intn(2) == 0 { // return everything
				for ; outst > 0; outst-- {
					in.Ops = append(in.Ops, pop{P: ip(0)})
				}
			}
			out = append(out, in)
			continue
		}
		in := input{Kind: "shard"}
		bp := func(v bool) *bool { return &v }
		nm := 0
		k := 1 + r.Intn(maxOps)
		for j := 0; j < k; j++ {
			if nm > 0 && r.Intn(2) == 0 {
				m := r.Intn(nm)
				in.MOps = append(in.MOps, mop{Close: ip(m)})
				if r.Intn(2) == 0 { // the loser tree and the deferred Close: twice
					in.MOps = append(in.MOps, mop{Close: ip(m)})
				}
				continue
			}
			in.MOps = append(in.MOps, mop{New: bp(r.Intn(5) != 0)})
			nm++
		}
		out = append(out, in)
	}
	return out
}

func main() {
	common.Main(common.Prop{ID: "C17", Facts: facts, Gen: gen, Run: run, QuickN: 800, ThoroughN: 15000,
		Preamble: "Open Scope N_scope.\n"})
}
