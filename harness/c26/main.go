// C26: remote-write v2 requests are translated faithfully (labels through the
// symbol table, samples, histograms, exemplars) and requests with symbol
// references outside the table are rejected with a client error, not a panic.
package main

import (
	"encoding/json"
	"fmt"
	"go/ast"
	"go/parser"
	"go/token"
	"io"
	"io/fs"
	"math"
	"math/rand"
	"path/filepath"
	"runtime"
	"runtime/debug"
	"sort"
	"strings"

	"github.com/gogo/protobuf/proto"
	"github.com/golang/snappy"

	"github.com/thanos-io/thanos/pkg/store/labelpb"
	"github.com/thanos-io/thanos/pkg/store/storepb/prompb"
	writev2 "github.com/thanos-io/thanos/pkg/store/storepb/prompb/io/prometheus/write/v2"
	"github.com/thanos-io/thanos/zzverif/common"
	ru "github.com/thanos-io/thanos/zzverif/receiveutil"
)

func facts(repo string, w io.Writer) error {
	s, err := common.ParseSrc(repo, "pkg/receive/handler.go")
	if err != nil {
		return err
	}
	// 1. the status handleV2HTTP answers when the translation fails
	fd, err := s.FindFunc("Handler.handleV2HTTP")
	if err != nil {
		return err
	}
	status := ""
	for i, st := range fd.Body.List {
		as, ok := st.(*ast.AssignStmt)
		if !ok || len(as.Rhs) != 1 {
			continue
		}
		call, ok := as.Rhs[0].(*ast.CallExpr)
		if !ok || s.ExprString(call.Fun) != "translateV2ToV1" {
			continue
		}
		if len(as.Lhs) != 2 || s.ExprString(as.Lhs[1]) != "err" {
			return fmt.Errorf("handleV2HTTP: translateV2ToV1 does not return an error that is kept")
		}
		if i+1 >= len(fd.Body.List) {
			break
		}
		ifs, ok := fd.Body.List[i+1].(*ast.IfStmt)
		if !ok || ifs.Init != nil || s.ExprString(ifs.Cond) != "err != nil" {
			return fmt.Errorf("handleV2HTTP: the translation error is not tested right after the call")
		}
		returns := false
		for _, b := range ifs.Body.List {
			if es, ok := b.(*ast.ExprStmt); ok {
				if c, ok := es.X.(*ast.CallExpr); ok && s.ExprString(c.Fun) == "http.Error" && len(c.Args) == 3 {
					status = s.ExprString(c.Args[2])
				}
			}
			if _, ok := b.(*ast.ReturnStmt); ok {
				returns = true
			}
		}
		if !returns {
			return fmt.Errorf("handleV2HTTP: the translation-error branch does not return")
		}
	}
	code, ok := map[string]int{"http.StatusBadRequest": 400, "http.StatusUnprocessableEntity": 422, "http.StatusInternalServerError": 500,
		"http.StatusConflict": 409, "http.StatusServiceUnavailable": 503, "http.StatusOK": 200}[status]
	if !ok {
		return fmt.Errorf("handleV2HTTP: no http.Error(w, ..., <status>) found for a failed translation (got %q)", status)
	}
	fmt.Fprintf(w, "(* handleV2HTTP: status written when translateV2ToV1 returns an error *)\nDefinition v2_bad_ref_status : Z := %d.\n\n", code)

	// 2. the reference check of v2Labels: for/if/return skeleton
	evs, err := s.CallOrder("v2Labels")
	if err != nil {
		return err
	}
	var sk []common.Event
	for _, e := range evs {
		switch e.Kind {
		case "if", "return", "for", "endfor", "else":
			sk = append(sk, e)
		}
	}
	fmt.Fprintf(w, "(* v2Labels: for/if/return skeleton in source order *)\n%s\n", common.EventsCoq("v2Labels_skeleton", sk))

	// 3. number of direct index expressions X.Symbols[...] / symbols[...] left
	//    in translateV2ToV1 itself (must go through v2Labels)
	tf, err := s.FindFunc("translateV2ToV1")
	if err != nil {
		return err
	}
	direct, viaHelper := 0, 0
	ast.Inspect(tf.Body, func(n ast.Node) bool {
		switch x := n.(type) {
		case *ast.IndexExpr:
			t := s.ExprString(x.X)
			if strings.HasSuffix(t, "Symbols") || t == "symbols" {
				direct++
			}
		case *ast.CallExpr:
			if s.ExprString(x.Fun) == "v2Labels" {
				viaHelper++
			}
		}
		return true
	})
	fmt.Fprintf(w, "(* translateV2ToV1: direct symbol-table index expressions, calls of v2Labels *)\nDefinition translate_direct_symbol_indexing : Z := %d.\nDefinition translate_v2Labels_calls : Z := %d.\n\n", direct, viaHelper)

	// 4. state the v2 path reads: fields of the Handler (through the receiver)
	//    and package-level variables of pkg/receive
	fields := map[string]bool{}
	for _, d := range s.File.Decls {
		gd, ok := d.(*ast.GenDecl)
		if !ok || gd.Tok != token.TYPE {
			continue
		}
		for _, sp := range gd.Specs {
			ts := sp.(*ast.TypeSpec)
			st, ok := ts.Type.(*ast.StructType)
			if ts.Name.Name != "Handler" || !ok {
				continue
			}
			for _, f := range st.Fields.List {
				for _, n := range f.Names {
					fields[n.Name] = true
				}
				if len(f.Names) == 0 { // embedded
					fields[s.ExprString(f.Type)] = true
				}
			}
		}
	}
	if len(fields) == 0 {
		return fmt.Errorf("type Handler struct not found")
	}
	pkgVars := map[string]bool{}
	fset := token.NewFileSet()
	pkgs, err := parser.ParseDir(fset, filepath.Join(repo, "pkg/receive"), func(fi fsFileInfo) bool {
		return !strings.HasSuffix(fi.Name(), "_test.go")
	}, 0)
	if err != nil {
		return err
	}
	for _, pk := range pkgs {
		for _, f := range pk.Files {
			for _, d := range f.Decls {
				if gd, ok := d.(*ast.GenDecl); ok && gd.Tok == token.VAR {
					for _, sp := range gd.Specs {
						for _, n := range sp.(*ast.ValueSpec).Names {
							pkgVars[n.Name] = true
						}
					}
				}
			}
		}
	}
	readFields, readVars := map[string]bool{}, map[string]bool{}
	for _, fn := range []string{"Handler.handleV2HTTP", "translateV2ToV1", "v2Labels", "translateV2SpansToV1"} {
		fd, err := s.FindFunc(fn)
		if err != nil {
			return err
		}
		recv := ""
		if fd.Recv != nil && len(fd.Recv.List) == 1 && len(fd.Recv.List[0].Names) == 1 {
			recv = fd.Recv.List[0].Names[0].Name
		}
		locals := map[string]bool{}
		ast.Inspect(fd, func(n ast.Node) bool {
			switch x := n.(type) {
			case *ast.AssignStmt:
				if x.Tok == token.DEFINE {
					for _, l := range x.Lhs {
						if id, ok := l.(*ast.Ident); ok {
							locals[id.Name] = true
						}
					}
				}
			case *ast.Field:
				for _, nm := range x.Names {
					locals[nm.Name] = true
				}
			case *ast.RangeStmt:
				for _, e := range []ast.Expr{x.Key, x.Value} {
					if id, ok := e.(*ast.Ident); ok {
						locals[id.Name] = true
					}
				}
			case *ast.ValueSpec:
				for _, nm := range x.Names {
					locals[nm.Name] = true
				}
			}
			return true
		})
		ast.Inspect(fd.Body, func(n ast.Node) bool {
			switch x := n.(type) {
			case *ast.SelectorExpr:
				if id, ok := x.X.(*ast.Ident); ok && recv != "" && id.Name == recv && fields[x.Sel.Name] {
					readFields[x.Sel.Name] = true
				}
			case *ast.Ident:
				if pkgVars[x.Name] && !locals[x.Name] {
					readVars[x.Name] = true
				}
			}
			return true
		})
	}
	strList := func(m map[string]bool) string {
		var ks []string
		for k := range m {
			ks = append(ks, common.CoqString(k))
		}
		sort.Strings(ks)
		return "[" + strings.Join(ks, "; ") + "]%string"
	}
	fmt.Fprintf(w, "(* handleV2HTTP / translateV2ToV1 / v2Labels / translateV2SpansToV1: Handler fields read through the receiver, package-level variables of pkg/receive read *)\nDefinition v2_handler_fields_read : list string := %s.\nDefinition v2_package_vars_read : list string := %s.\n", strList(readFields), strList(readVars))
	return nil
}

type fsFileInfo = fs.FileInfo

// ---- input ----
type sample struct {
	T int64  `json:"t"`
	V uint64 `json:"v"` // float64 bits
}
type exemplar struct {
	Refs []uint32 `json:"refs"`
	V    uint64   `json:"v"`
	T    int64    `json:"t"`
}
type hist struct {
	CountKind int        `json:"ck"` // 0 unset, 1 int, 2 float
	Count     uint64     `json:"c"`
	Sum       uint64     `json:"sum"`
	Schema    int32      `json:"schema"`
	ZT        uint64     `json:"zt"`
	ZCKind    int        `json:"zk"`
	ZC        uint64     `json:"zc"`
	NSpans    [][2]int64 `json:"ns"`
	NDeltas   []int64    `json:"nd"`
	NCounts   []uint64   `json:"nc"`
	PSpans    [][2]int64 `json:"ps"`
	PDeltas   []int64    `json:"pd"`
	PCounts   []uint64   `json:"pc"`
	Reset     int32      `json:"reset"`
	T         int64      `json:"t"`
	Custom    []uint64   `json:"custom"`
}
type series struct {
	Refs      []uint32   `json:"refs"`
	Samples   []sample   `json:"samples"`
	Exemplars []exemplar `json:"exemplars"`
	Hists     []hist     `json:"hists"`
}
type input struct {
	Symbols []string `json:"symbols"`
	Series  []series `json:"series"`
}

// history is a sequence of requests served by the same handler.
type history struct {
	Requests []input `json:"requests"`
}

func f64(b uint64) float64 { return math.Float64frombits(b) }

// sb normalises the bits of a float carried in a singular proto3 field: the
// gogo marshaller omits fields equal to zero, so -0 reaches the handler as +0
// (a property of the client-side encoder, not of the code under test).
func sb(b uint64) uint64 {
	if b == 1<<63 {
		return 0
	}
	return b
}
func floats(bs []uint64) []float64 {
	if len(bs) == 0 {
		return nil
	}
	out := make([]float64, len(bs))
	for i, b := range bs {
		out[i] = f64(b)
	}
	return out
}

func (in *input) toProto() *writev2.Request {
	req := &writev2.Request{Symbols: in.Symbols}
	for _, s := range in.Series {
		ts := writev2.TimeSeries{LabelsRefs: s.Refs}
		for _, x := range s.Samples {
			ts.Samples = append(ts.Samples, writev2.Sample{Timestamp: x.T, Value: f64(x.V)})
		}
		for _, e := range s.Exemplars {
			ts.Exemplars = append(ts.Exemplars, writev2.Exemplar{LabelsRefs: e.Refs, Value: f64(e.V), Timestamp: e.T})
		}
		for _, h := range s.Hists {
			vh := writev2.Histogram{Sum: f64(h.Sum), Schema: h.Schema, ZeroThreshold: f64(h.ZT),
				NegativeDeltas: h.NDeltas, NegativeCounts: floats(h.NCounts), PositiveDeltas: h.PDeltas, PositiveCounts: floats(h.PCounts),
				ResetHint: writev2.Histogram_ResetHint(h.Reset), Timestamp: h.T, CustomValues: floats(h.Custom)}
			switch h.CountKind {
			case 1:
				vh.Count = &writev2.Histogram_CountInt{CountInt: h.Count}
			case 2:
				vh.Count = &writev2.Histogram_CountFloat{CountFloat: f64(h.Count)}
			}
			switch h.ZCKind {
			case 1:
				vh.ZeroCount = &writev2.Histogram_ZeroCountInt{ZeroCountInt: h.ZC}
			case 2:
				vh.ZeroCount = &writev2.Histogram_ZeroCountFloat{ZeroCountFloat: f64(h.ZC)}
			}
			for _, sp := range h.NSpans {
				vh.NegativeSpans = append(vh.NegativeSpans, writev2.BucketSpan{Offset: int32(sp[0]), Length: uint32(sp[1])})
			}
			for _, sp := range h.PSpans {
				vh.PositiveSpans = append(vh.PositiveSpans, writev2.BucketSpan{Offset: int32(sp[0]), Length: uint32(sp[1])})
			}
			ts.Histograms = append(ts.Histograms, vh)
		}
		req.Timeseries = append(req.Timeseries, ts)
	}
	return req
}

// ---- Coq printers ----
func nlist(bs []uint64) string {
	s := make([]string, len(bs))
	for i, b := range bs {
		s[i] = common.N(b)
	}
	return common.List(s)
}
func bitsList(fs []float64) string {
	s := make([]string, len(fs))
	for i, f := range fs {
		s[i] = common.N(math.Float64bits(f))
	}
	return common.List(s)
}
func refsCoq(rs []uint32) string {
	s := make([]string, len(rs))
	for i, r := range rs {
		s[i] = common.N(uint64(r))
	}
	return common.List(s)
}
func spansCoq(sp [][2]int64) string {
	s := make([]string, len(sp))
	for i, x := range sp {
		s[i] = common.Pair(common.Z(x[0]), common.N(uint64(x[1])))
	}
	return common.List(s)
}
func cnt(kind int, v uint64) string {
	switch kind {
	case 1:
		return common.Some(common.Pair("true", common.N(v)))
	case 2:
		return common.Some(common.Pair("false", common.N(v)))
	}
	return "None"
}
func histTuple(count, sum, schema, zt, zc, ns, nd, nc, ps, pd, pc, reset, t, custom string) string {
	return common.Tuple(count, sum, schema, zt, zc, ns, nd, nc, ps, pd, pc, reset, t, custom)
}
func (h *hist) coq() string {
	return histTuple(cnt(h.CountKind, h.Count), common.N(sb(h.Sum)), common.Z(int64(h.Schema)), common.N(sb(h.ZT)), cnt(h.ZCKind, h.ZC),
		spansCoq(h.NSpans), common.ZList(h.NDeltas), nlist(h.NCounts), spansCoq(h.PSpans), common.ZList(h.PDeltas), nlist(h.PCounts),
		common.Z(int64(h.Reset)), common.Z(h.T), nlist(h.Custom))
}
func v1Spans(sp []prompb.BucketSpan) string {
	s := make([]string, len(sp))
	for i, x := range sp {
		s[i] = common.Pair(common.Z(int64(x.Offset)), common.N(uint64(x.Length)))
	}
	return common.List(s)
}
func v1Hist(h prompb.Histogram) string {
	count, zc := "None", "None"
	switch c := h.Count.(type) {
	case *prompb.Histogram_CountInt:
		count = cnt(1, c.CountInt)
	case *prompb.Histogram_CountFloat:
		count = cnt(2, math.Float64bits(c.CountFloat))
	}
	switch c := h.ZeroCount.(type) {
	case *prompb.Histogram_ZeroCountInt:
		zc = cnt(1, c.ZeroCountInt)
	case *prompb.Histogram_ZeroCountFloat:
		zc = cnt(2, math.Float64bits(c.ZeroCountFloat))
	}
	return histTuple(count, common.N(math.Float64bits(h.Sum)), common.Z(int64(h.Schema)), common.N(math.Float64bits(h.ZeroThreshold)), zc,
		v1Spans(h.NegativeSpans), common.ZList(h.NegativeDeltas), bitsList(h.NegativeCounts),
		v1Spans(h.PositiveSpans), common.ZList(h.PositiveDeltas), bitsList(h.PositiveCounts),
		common.Z(int64(h.ResetHint)), common.Z(h.Timestamp), bitsList(h.CustomValues))
}
func lblsCoq(ls []labelpb.ZLabel) string {
	s := make([]string, len(ls))
	for i, l := range ls {
		s[i] = common.Pair(common.Bytes(l.Name), common.Bytes(l.Value))
	}
	return common.List(s)
}
func v1Series(ts prompb.TimeSeries) string {
	var ss, es, hs []string
	for _, x := range ts.Samples {
		ss = append(ss, common.Pair(common.Z(x.Timestamp), common.N(math.Float64bits(x.Value))))
	}
	for _, e := range ts.Exemplars {
		es = append(es, common.Tuple(lblsCoq(e.Labels), common.N(math.Float64bits(e.Value)), common.Z(e.Timestamp)))
	}
	for _, h := range ts.Histograms {
		hs = append(hs, v1Hist(h))
	}
	return common.Tuple(lblsCoq(ts.Labels), common.List(ss), common.List(es), common.List(hs))
}
func (s *series) coq() string {
	var ss, es, hs []string
	for _, x := range s.Samples {
		ss = append(ss, common.Pair(common.Z(x.T), common.N(sb(x.V))))
	}
	for _, e := range s.Exemplars {
		es = append(es, common.Tuple(refsCoq(e.Refs), common.N(sb(e.V)), common.Z(e.T)))
	}
	for i := range s.Hists {
		hs = append(hs, s.Hists[i].coq())
	}
	return common.Tuple(refsCoq(s.Refs), common.List(ss), common.List(es), common.List(hs))
}

func run(raw json.RawMessage) (common.Case, error) {
	var hist history
	if err := json.Unmarshal(raw, &hist); err != nil {
		return common.Case{}, err
	}
	if len(hist.Requests) == 0 { // a single request (older corpus files)
		var in input
		if err := json.Unmarshal(raw, &in); err != nil {
			return common.Case{}, err
		}
		hist.Requests = []input{in}
	}
	// one P and no garbage collection while the history runs, so that an object
	// a request puts into a sync.Pool is what the next request gets out of it
	defer runtime.GOMAXPROCS(runtime.GOMAXPROCS(1))
	defer debug.SetGCPercent(debug.SetGCPercent(-1))
	sess, err := ru.NewIngestSession()
	if err != nil {
		return common.Case{}, err
	}
	defer sess.Close()

	var c common.Case
	var recs []string
	var obs []any
	anyBad, nlabelsAll := false, 0
	for k := range hist.Requests {
		in := &hist.Requests[k]
		buf, err := proto.Marshal(in.toProto())
		if err != nil {
			return common.Case{}, err
		}
		res, err := sess.Send(snappy.Encode(nil, buf), map[string]string{
			"Content-Type":                      "application/x-protobuf;proto=io.prometheus.write.v2.Request",
			"X-Prometheus-Remote-Write-Version": "2.0.0",
		})
		if err != nil {
			return common.Case{}, err
		}
		var syms, sers, outs []string
		for _, s := range in.Symbols {
			syms = append(syms, common.Bytes(s))
		}
		bad := false
		for i := range in.Series {
			sers = append(sers, in.Series[i].coq())
			for _, r := range in.Series[i].Refs {
				bad = bad || int(r) >= len(in.Symbols)
			}
			nlabelsAll += len(in.Series[i].Refs) / 2
			for _, e := range in.Series[i].Exemplars {
				for _, r := range e.Refs {
					bad = bad || int(r) >= len(in.Symbols)
				}
			}
		}
		anyBad = anyBad || bad
		for _, ts := range res.Ingested {
			outs = append(outs, v1Series(ts))
		}
		recs = append(recs, common.App("CV2", common.List(syms), common.List(sers), common.Bool(res.Panic != ""), common.Z(int64(res.Status)), common.List(outs)))
		obs = append(obs, map[string]any{"status": res.Status, "panic": res.Panic, "ingested_series": len(res.Ingested), "body": strings.TrimSpace(res.Body)})
		if c.GoPred != "" {
			continue
		}
		where := fmt.Sprintf("request %d of %d: ", k+1, len(hist.Requests))
		switch {
		case res.Panic != "":
			c.GoPred = where + "request handling panicked: " + res.Panic
			c.Sig = "panic-on-symbol-ref"
		case bad && (res.Status < 400 || res.Status > 499):
			c.GoPred = where + fmt.Sprintf("request with an out-of-range symbol reference answered %d, not a client error", res.Status)
			c.Sig = "bad-ref-not-4xx"
		case bad && len(res.Ingested) > 0:
			c.GoPred = where + "request with an out-of-range symbol reference was (partly) ingested"
			c.Sig = "bad-ref-ingested"
		case !bad && res.Status != 200:
			c.GoPred = where + fmt.Sprintf("valid request answered %d", res.Status)
			c.Sig = "valid-rejected"
		case !bad && !sameLabels(in, res.Ingested):
			c.GoPred = where + "the series were not ingested under the labels the request's own symbols table describes"
			c.Sig = "wrong-labels"
		}
	}
	c.Coq = common.App("CHist", common.List(recs))
	c.Obs = obs
	switch {
	case len(hist.Requests) > 1 && anyBad:
		c.Class = fmt.Sprintf("history%d/with-rejected", len(hist.Requests))
	case len(hist.Requests) > 1:
		c.Class = fmt.Sprintf("history%d/valid", len(hist.Requests))
	case anyBad:
		c.Class = "bad-ref"
	case len(hist.Requests[0].Series) == 0:
		c.Class = "empty"
	default:
		c.Class = "valid"
	}
	c.Nontrivial = anyBad || nlabelsAll > 0
	runtime.GC()
	return c, nil
}

// sameLabels: the ingested series carry exactly the labels the request describes.
func sameLabels(in *input, got []prompb.TimeSeries) bool {
	if len(got) != len(in.Series) {
		return false
	}
	for i, s := range in.Series {
		if len(got[i].Labels) != len(s.Refs)/2 {
			return false
		}
		for j := 0; j+1 < len(s.Refs); j += 2 {
			l := got[i].Labels[j/2]
			if l.Name != in.Symbols[s.Refs[j]] || l.Value != in.Symbols[s.Refs[j+1]] {
				return false
			}
		}
	}
	return true
}

// ---- generator ----
func genBits(r *rand.Rand) uint64 {
	switch r.Intn(8) {
	case 0:
		return 0
	case 1:
		return math.Float64bits(math.NaN())
	case 2:
		return math.Float64bits(math.Inf(-1))
	case 3:
		return r.Uint64() // arbitrary payload, incl. NaNs
	case 4:
		return 1 << 63 // -0
	}
	return math.Float64bits(float64(r.Intn(2000)-1000) / 4)
}
func genBitsList(r *rand.Rand, max int) []uint64 {
	n := r.Intn(max + 1)
	out := make([]uint64, n)
	for i := range out {
		out[i] = genBits(r)
	}
	return out
}
func genDeltas(r *rand.Rand, max int) []int64 {
	n := r.Intn(max + 1)
	out := make([]int64, n)
	for i := range out {
		out[i] = common.Pick(r, int64(r.Intn(20)-10), math.MinInt64, math.MaxInt64, int64(r.Intn(1000)))
	}
	return out
}
func genSpans(r *rand.Rand) [][2]int64 {
	n := r.Intn(3)
	out := make([][2]int64, n)
	for i := range out {
		out[i] = [2]int64{common.Pick(r, int64(r.Intn(10)-5), math.MinInt32, math.MaxInt32), int64(common.Pick(r, uint32(r.Intn(5)), math.MaxUint32))}
	}
	return out
}
func genHist(r *rand.Rand) hist {
	return hist{CountKind: r.Intn(3), Count: common.Pick(r, uint64(r.Intn(100)), r.Uint64()), Sum: genBits(r), Schema: common.Pick(r, int32(r.Intn(12)-4), -53, math.MinInt32),
		ZT: genBits(r), ZCKind: r.Intn(3), ZC: common.Pick(r, uint64(r.Intn(10)), r.Uint64()),
		NSpans: genSpans(r), NDeltas: genDeltas(r, 3), NCounts: genBitsList(r, 3), PSpans: genSpans(r), PDeltas: genDeltas(r, 3), PCounts: genBitsList(r, 3),
		Reset: common.Pick(r, int32(0), 1, 2, 3, 7, -1), T: common.Pick(r, int64(r.Intn(1e6)), 1700000000000, -5), Custom: genBitsList(r, 3)}
}

// gen builds histories: a third single requests, the rest 2..3 requests through
// the same handler, many of them with a rejected request followed by a valid one.
func gen(r *rand.Rand, tier string, n int) []any {
	single := genRequests(r, tier, 3*n)
	var out []any
	k := 0
	next := func(wantBad int) input { // wantBad: 1 rejected, 0 valid, -1 any
		for tries := 0; tries < 200; tries++ {
			in := single[k%len(single)]
			k++
			if wantBad < 0 || (wantBad == 1) == hasBadRef(&in) {
				return in
			}
		}
		return single[k%len(single)]
	}
	for len(out) < n {
		switch r.Intn(6) {
		case 0, 1:
			out = append(out, history{Requests: []input{next(-1)}})
		case 2, 3:
			out = append(out, history{Requests: []input{next(1), next(0)}})
		case 4:
			out = append(out, history{Requests: []input{next(0), next(1), next(0)}})
		default:
			out = append(out, history{Requests: []input{next(-1), next(-1), next(-1)}})
		}
	}
	return out
}

func hasBadRef(in *input) bool {
	for _, s := range in.Series {
		for _, r := range s.Refs {
			if int(r) >= len(in.Symbols) {
				return true
			}
		}
		for _, e := range s.Exemplars {
			for _, r := range e.Refs {
				if int(r) >= len(in.Symbols) {
					return true
				}
			}
		}
	}
	return false
}

func genRequests(r *rand.Rand, tier string, n int) []input {
	var out []input
	words := []string{"", "__name__", "job", "instance", "le", "up", "http_requests_total", "a", "b", "trace_id", "x\ny", "ünï", "0.5", "node-1:9100", "=", "\"q\""}
	maxSeries, maxRefs := 4, 8
	if tier == "thorough" {
		maxSeries, maxRefs = 12, 24
	}
	for i := 0; i < n; i++ {
		var in input
		ns := r.Intn(10)
		if r.Intn(15) == 0 {
			ns = 0
		}
		for j := 0; j < ns; j++ {
			w := words[r.Intn(len(words))]
			if r.Intn(4) == 0 {
				w = fmt.Sprintf("%s%d", w, r.Intn(50))
			}
			in.Symbols = append(in.Symbols, w)
		}
		badCase := r.Intn(4) == 0 // a quarter of the cases carry (at least the chance of) a bad reference
		ref := func() uint32 {
			if badCase && r.Intn(6) == 0 {
				return common.Pick(r, uint32(ns), uint32(ns+1), uint32(ns+r.Intn(100)), math.MaxUint32, 1<<31)
			}
			if ns == 0 {
				return 0 // out of range for an empty table
			}
			return uint32(r.Intn(ns))
		}
		refs := func() []uint32 {
			k := 2 * r.Intn(maxRefs/2+1)
			if r.Intn(10) == 0 {
				k++ // odd number of references
			}
			if ns == 0 && !badCase {
				k = 0
			}
			rs := make([]uint32, k)
			for x := range rs {
				rs[x] = ref()
			}
			return rs
		}
		nser := r.Intn(maxSeries + 1)
		for j := 0; j < nser; j++ {
			s := series{Refs: refs()}
			for k := r.Intn(4); k > 0; k-- {
				s.Samples = append(s.Samples, sample{T: common.Pick(r, int64(r.Intn(1e6)), 1700000000000, -1, math.MinInt64), V: genBits(r)})
			}
			for k := r.Intn(3); k > 0 && r.Intn(2) == 0; k-- {
				s.Exemplars = append(s.Exemplars, exemplar{Refs: refs(), V: genBits(r), T: int64(r.Intn(1e6))})
			}
			for k := r.Intn(3); k > 0 && r.Intn(2) == 0; k-- {
				s.Hists = append(s.Hists, genHist(r))
			}
			in.Series = append(in.Series, s)
		}
		out = append(out, in)
	}
	return out
}

func main() {
	common.Main(common.Prop{ID: "C26", Facts: facts, Gen: gen, Run: run, QuickN: 500, ThoroughN: 3000,
		Preamble: "Open Scope Z_scope.\n"})
}
