// C19: building a hashring from any configuration terminates (ring or error).
package main

import (
	"encoding/json"
	"fmt"
	"io"
	"math/rand"
	"sort"
	"time"

	"github.com/prometheus/client_golang/prometheus"
	"github.com/thanos-io/thanos/pkg/receive"
	"github.com/thanos-io/thanos/zzverif/common"
	"github.com/thanos-io/thanos/zzverif/hashringutil"
)

type endpoint struct {
	Addr string `json:"addr"`
	AZ   string `json:"az"`
}

type input struct {
	// Via: "shim" = newKetamaHashring through the export shim with Spn sections
	// per node; "multi" = NewMultiHashring (real SectionsPerNode).
	Via       string     `json:"via"`
	Endpoints []endpoint `json:"endpoints"`
	Spn       int        `json:"spn"`
	RF        uint64     `json:"rf"`
	// Raw: print the real 64-bit hash values instead of their ranks.
	Raw bool `json:"raw,omitempty"`
	// Via "config": a whole configuration file and the default algorithm.
	Config    string `json:"config,omitempty"`
	Algorithm string `json:"algorithm,omitempty"`
}

func facts(repo string, w io.Writer) error {
	s, err := common.ParseSrc(repo, "pkg/receive/hashring.go")
	if err != nil {
		return err
	}
	evs, err := s.CallOrder("calculateSectionReplicas")
	if err != nil {
		return err
	}
	fmt.Fprintln(w, "(* pkg/receive/hashring.go: source-order events of calculateSectionReplicas *)")
	fmt.Fprint(w, common.EventsCoq("calc_events", evs))
	fmt.Fprintln(w, "(* pkg/receive/hashring.go: SectionsPerNode (value linked into the harness) *)")
	fmt.Fprintf(w, "Definition SectionsPerNode : Z := %d.\n", receive.SectionsPerNode)
	return nil
}

// azIDs maps zone names to small integers (first occurrence order); only
// equality of zones is used by the code.
func azIDs(eps []endpoint) map[string]int64 {
	m := map[string]int64{}
	for _, e := range eps {
		if _, ok := m[e.AZ]; !ok {
			m[e.AZ] = int64(len(m))
		}
	}
	return m
}

func run(raw json.RawMessage) (common.Case, error) {
	var in input
	if err := json.Unmarshal(raw, &in); err != nil {
		return common.Case{}, err
	}
	var c common.Case
	if in.Via == "config" {
		cfg, err := receive.ParseConfig([]byte(in.Config))
		var h receive.Hashring
		if err == nil {
			h, err = receive.NewMultiHashring(receive.HashringAlgorithm(in.Algorithm), in.RF, cfg, prometheus.NewRegistry())
		}
		if err == nil {
			h.Close()
		}
		c.Coq = common.App("CConfig", common.Bool(err == nil))
		c.Class = "config/ok"
		c.Obs = "ring"
		if err != nil {
			c.Class, c.Obs = "config/err", "error"
		}
		c.Nontrivial = true
		return c, nil
	}
	eps := make([]receive.Endpoint, len(in.Endpoints))
	for i, e := range in.Endpoints {
		eps[i] = receive.Endpoint{Address: e.Addr, AZ: e.AZ}
	}
	spn := in.Spn
	var secs []receive.VerifC19Section
	var err error
	switch in.Via {
	case "shim":
		secs, err = receive.VerifC19NewKetama(eps, spn, in.RF)
	case "multi":
		spn = receive.SectionsPerNode
		var h receive.Hashring
		h, err = receive.NewMultiHashring(receive.AlgorithmKetama, in.RF, []receive.HashringConfig{{Endpoints: eps}}, nil)
		if err == nil {
			secs = receive.VerifC19Sections(h)
			if secs == nil {
				return c, fmt.Errorf("no ketama ring inside the multi hashring")
			}
		}
	default:
		return c, fmt.Errorf("bad via %q", in.Via)
	}
	// hash oracle: the values the real xxhash library gives for "<addr>:<i>"
	ids := azIDs(in.Endpoints)
	rk := &hashringutil.Ranker{Raw: in.Raw}
	for _, e := range in.Endpoints {
		for i := 1; i <= spn; i++ {
			rk.Add(hashringutil.SectionHash(e.Addr, i))
		}
	}
	for _, s := range secs {
		rk.Add(s.Hash) // a hash the oracle does not know stays visible as a mismatch
	}
	var epTerms []string
	zones := map[string]int{}
	for _, e := range in.Endpoints {
		zones[e.AZ]++
		hs := make([]string, 0, spn)
		for i := 1; i <= spn; i++ {
			hs = append(hs, common.ZU(rk.Rank(hashringutil.SectionHash(e.Addr, i))))
		}
		epTerms = append(epTerms, common.Pair(common.Z(ids[e.AZ]), common.List(hs)))
	}
	var obs string
	if err != nil {
		obs = "OErr"
		c.Obs = "error"
	} else {
		var ss []string
		for _, s := range secs {
			reps := make([]string, len(s.Replicas))
			for i, r := range s.Replicas {
				reps[i] = common.Nat(int(r))
			}
			ss = append(ss, common.Tuple(common.ZU(rk.Rank(s.Hash)), common.Nat(int(s.EndpointIndex)), common.List(reps)))
			// Go-side predicate (search aid)
			seen := map[uint64]bool{}
			for _, r := range s.Replicas {
				if seen[r] || r >= uint64(len(eps)) {
					c.GoPred, c.Sig = "a section has duplicate or out-of-range replicas", "bad-replicas"
				}
				seen[r] = true
			}
			if uint64(len(s.Replicas)) != in.RF {
				c.GoPred, c.Sig = "a section does not hold exactly rf replicas", "replica-count"
			}
		}
		obs = common.App("OOk", common.List(ss))
		c.Obs = fmt.Sprintf("ring of %d sections", len(secs))
	}
	c.Coq = common.App("CKetama", common.Bool(in.Via == "multi"), common.List(epTerms), common.Nat(int(in.RF)), obs)
	var sizes []int
	for _, n := range zones {
		sizes = append(sizes, n)
	}
	sort.Ints(sizes)
	kind := "ok"
	if err != nil {
		kind = "err"
	}
	c.Class = fmt.Sprintf("%s/zones=%d/%s", in.Via, len(zones), kind)
	// non-trivial: more than one zone (the balancing test is exercised) or an error outcome
	c.Nontrivial = len(zones) > 1 || err != nil
	return c, nil
}

func genLayout(r *rand.Rand, maxNodes int) []endpoint {
	n := int(common.Between(r, 1, int64(maxNodes)))
	nz := int(common.Between(r, 1, 4))
	if r.Intn(4) == 0 {
		nz = 1
	}
	zoneNames := []string{"", "a", "b", "c"}
	if r.Intn(2) == 0 {
		zoneNames = []string{"z1", "z2", "z3", "z4"}
	}
	eps := make([]endpoint, 0, n)
	for i := 0; i < n; i++ {
		var z string
		switch {
		case i < nz:
			z = zoneNames[i] // every zone present when n >= nz
		case r.Intn(3) == 0:
			z = zoneNames[0] // skew: unbalanced zones
		default:
			z = zoneNames[r.Intn(nz)]
		}
		eps = append(eps, endpoint{Addr: fmt.Sprintf("node-%d.%d:10901", r.Intn(1000), i), AZ: z})
	}
	// addresses are distinct: equal addresses give equal section hashes, and the
	// order sort.Sort leaves colliding sections in is not specified
	r.Shuffle(len(eps), func(i, j int) { eps[i], eps[j] = eps[j], eps[i] })
	return eps
}

// genConfig renders a configuration file with several hashrings.
func genConfig(r *rand.Rand) (string, string, uint64) {
	type ep struct {
		Address string `json:"address"`
		AZ      string `json:"az,omitempty"`
	}
	type ssc struct {
		ShardSize int  `json:"shard_size"`
		Disabled  bool `json:"zone_awareness_disabled"`
	}
	type ring struct {
		Hashring  string   `json:"hashring,omitempty"`
		Tenants   []string `json:"tenants,omitempty"`
		Matcher   string   `json:"tenant_matcher_type,omitempty"`
		Endpoints []any    `json:"endpoints"`
		Algorithm string   `json:"algorithm,omitempty"`
		SS        *ssc     `json:"shuffle_sharding_config,omitempty"`
	}
	var rings []ring
	maxN := 1
	for k := int(common.Between(r, 1, 3)); k > 0; k-- {
		var rg ring
		rg.Hashring = fmt.Sprintf("ring-%d", k)
		rg.Algorithm = common.Pick(r, "", "", "ketama", "hashmod", "bogus")
		withAZ := r.Intn(3) == 0
		nn := int(common.Between(r, 1, 5))
		if nn > maxN {
			maxN = nn
		}
		for j := 0; j < nn; j++ {
			addr := fmt.Sprintf("r%d-n%d:10901", k, j)
			switch {
			case withAZ:
				rg.Endpoints = append(rg.Endpoints, ep{Address: addr, AZ: common.Pick(r, "a", "b", "a")})
			case r.Intn(2) == 0:
				rg.Endpoints = append(rg.Endpoints, addr) // endpoints may be plain strings
			default:
				rg.Endpoints = append(rg.Endpoints, ep{Address: addr})
			}
		}
		if r.Intn(2) == 0 {
			rg.Tenants = []string{common.Pick(r, "team-a", "team-*", "[bad")}
			rg.Matcher = common.Pick(r, "", "exact", "glob")
		}
		if r.Intn(4) == 0 {
			rg.SS = &ssc{ShardSize: int(common.Between(r, 1, int64(nn+1))), Disabled: r.Intn(2) == 0}
		}
		rings = append(rings, rg)
	}
	b, _ := json.Marshal(rings)
	cfg := string(b)
	if r.Intn(15) == 0 {
		cfg = common.Pick(r, "", "[]", "{", `[{"endpoints": [{"az": "a"}]}]`) // empty / malformed / endpoint without address
	}
	return cfg, common.Pick(r, "ketama", "hashmod", ""), uint64(common.Between(r, 1, int64(maxN)))
}

func gen(r *rand.Rand, tier string, n int) []any {
	var out []any
	for i := 0; i < n; i++ {
		var in input
		if r.Intn(8) == 0 {
			in.Via = "config"
			in.Config, in.Algorithm, in.RF = genConfig(r)
			out = append(out, in)
			continue
		}
		full := r.Intn(250) == 0
		if full {
			in.Via = "multi"
			in.Endpoints = genLayout(r, 2)
		} else {
			in.Via = "shim"
			in.Endpoints = genLayout(r, 12)
			in.Spn = int(common.Pick(r, int64(1), 1, 2, 3, 5, 8, 16))
			if tier == "thorough" && r.Intn(40) == 0 {
				in.Spn = 64
			}
		}
		ne := len(in.Endpoints)
		switch k := r.Intn(20); {
		case k == 0:
			in.RF = uint64(ne + 1) // more replicas than endpoints: error
		case k == 1:
			in.RF = 0
		case k < 8:
			in.RF = uint64(ne) // the hardest case for balancing
		default:
			in.RF = uint64(common.Between(r, 1, int64(ne)))
		}
		out = append(out, in)
	}
	return out
}

func main() {
	common.Main(common.Prop{ID: "C19", Facts: facts, Gen: gen, Run: run, QuickN: 500, ThoroughN: 2500,
		CaseTimeout: 10 * time.Second})
}
