// C48: bucket rewrite deletes exactly the requested data
// (compactv2.DeletionModifier: delModifierSeriesSet / delGenericSeriesIterator / delChunkSeriesIterator).
package main

import (
	"context"
	"encoding/json"
	"fmt"
	"io"
	"math/rand"
	"os"
	"path/filepath"
	"sort"

	"github.com/go-kit/log"
	"github.com/oklog/ulid/v2"
	"github.com/prometheus/prometheus/tsdb"
	"github.com/prometheus/prometheus/tsdb/index"
	"github.com/thanos-io/thanos/pkg/block"
	"github.com/thanos-io/thanos/pkg/logutil"

	"github.com/prometheus/prometheus/model/labels"
	"github.com/prometheus/prometheus/storage"
	"github.com/prometheus/prometheus/tsdb/chunkenc"
	"github.com/prometheus/prometheus/tsdb/chunks"
	"github.com/prometheus/prometheus/tsdb/tombstones"
	"github.com/prometheus/prometheus/util/annotations"

	"github.com/thanos-io/thanos/pkg/block/metadata"
	"github.com/thanos-io/thanos/pkg/compactv2"
	"github.com/thanos-io/thanos/zzverif/common"
)

type mIn struct {
	T int    `json:"t"` // 0 = , 1 != , 2 =~ , 3 !~
	N string `json:"n"`
	V string `json:"v"`
}

type reqIn struct {
	Matchers  []mIn      `json:"matchers"`
	Intervals [][2]int64 `json:"intervals"`
}

type seriesIn struct {
	Labels [][2]string  `json:"labels"`
	Chunks [][][2]int64 `json:"chunks"` // chunk = list of (t, v)
}

type input struct {
	Kind   string     `json:"kind,omitempty"` // "" = DeletionModifier.Modify on in-memory series; "block" = Compactor.WriteSeries on a real block
	Reqs   []reqIn    `json:"reqs"`
	Series []seriesIn `json:"series"`
}

// ---- tie T ----
func facts(repo string, w io.Writer) error {
	s, err := common.ParseSrc(repo, "pkg/compactv2/modifiers.go")
	if err != nil {
		return err
	}
	for _, fn := range []string{"delModifierSeriesSet.Next", "delGenericSeriesIterator.next", "delChunkSeriesIterator.Next"} {
		evs, err := s.CallOrder(fn)
		if err != nil {
			return err
		}
		name := map[string]string{"delModifierSeriesSet.Next": "seriesSetNext_events", "delGenericSeriesIterator.next": "genericNext_events", "delChunkSeriesIterator.Next": "chunkNext_events"}[fn]
		fmt.Fprintf(w, "(* pkg/compactv2/modifiers.go: source-order events of %s *)\n", fn)
		fmt.Fprintln(w, common.EventsCoq(name, evs))
	}
	return nil
}

// ---- in-memory chunk series set ----
type listSet struct {
	ss  []storage.ChunkSeries
	idx int
}

func (s *listSet) Next() bool                        { s.idx++; return s.idx < len(s.ss) }
func (s *listSet) At() storage.ChunkSeries           { return s.ss[s.idx] }
func (s *listSet) Err() error                        { return nil }
func (s *listSet) Warnings() annotations.Annotations { return nil }

type nopLog struct{ deleted int }

func (l *nopLog) DeleteSeries(labels.Labels, tombstones.Intervals) { l.deleted++ }
func (l *nopLog) ModifySeries(labels.Labels, labels.Labels)        {}
func (l *nopLog) SeriesProcessed()                                 {}

func normLabels(in [][2]string) [][2]string {
	seen := map[string]bool{}
	var out [][2]string
	for _, l := range in {
		if !seen[l[0]] && l[1] != "" {
			seen[l[0]] = true
			out = append(out, l)
		}
	}
	sort.Slice(out, func(i, j int) bool { return out[i][0] < out[j][0] })
	return out
}

func coqLabels(in [][2]string) string {
	var xs []string
	for _, l := range in {
		xs = append(xs, common.Pair(common.Bytes(l[0]), common.Bytes(l[1])))
	}
	return common.List(xs)
}

func coqSamples(c [][2]int64) string {
	var xs []string
	for _, s := range c {
		xs = append(xs, common.Pair(common.Z(s[0]), common.Z(s[1])))
	}
	return common.List(xs)
}

func matchType(t int) labels.MatchType {
	return []labels.MatchType{labels.MatchEqual, labels.MatchNotEqual, labels.MatchRegexp, labels.MatchNotRegexp}[t&3]
}

type outChunk struct {
	Min, Max int64
	Samples  [][2]int64
}
type outSeries struct {
	Labels [][2]string
	Chunks []outChunk
}

func run(raw json.RawMessage) (common.Case, error) {
	var in input
	if err := json.Unmarshal(raw, &in); err != nil {
		return common.Case{}, err
	}
	var c common.Case
	// series
	var css []storage.ChunkSeries
	var coqSeries []string
	vals := map[string]bool{}
	nchunks := 0
	for i := range in.Series {
		in.Series[i].Labels = normLabels(in.Series[i].Labels)
	}
	if in.Kind == "block" {
		// an index holds non-empty label sets with at least one chunk, in label order, once each
		var keep []seriesIn
		seen := map[string]bool{}
		for _, se := range in.Series {
			var chs [][][2]int64
			for _, ch := range se.Chunks {
				if len(ch) > 0 {
					chs = append(chs, ch)
				}
			}
			k := fmt.Sprint(se.Labels)
			if len(chs) == 0 || len(se.Labels) == 0 || seen[k] {
				continue
			}
			seen[k] = true
			se.Chunks = chs
			keep = append(keep, se)
		}
		toLabels := func(ls [][2]string) labels.Labels {
			var out []labels.Label
			for _, l := range ls {
				out = append(out, labels.Label{Name: l[0], Value: l[1]})
			}
			return labels.New(out...)
		}
		sort.Slice(keep, func(a, b int) bool { return labels.Compare(toLabels(keep[a].Labels), toLabels(keep[b].Labels)) < 0 })
		in.Series = keep
	}
	var blockMetas [][]chunks.Meta
	var blockLsets []labels.Labels
	for i := range in.Series {
		s := &in.Series[i]
		var ls []labels.Label
		for _, l := range s.Labels {
			ls = append(ls, labels.Label{Name: l[0], Value: l[1]})
			vals[l[1]] = true
		}
		var metas []chunks.Meta
		var coqChunks []string
		for _, ch := range s.Chunks {
			if len(ch) == 0 {
				continue
			}
			xc := chunkenc.NewXORChunk()
			app, err := xc.Appender()
			if err != nil {
				return c, err
			}
			for _, sm := range ch {
				app.Append(sm[0], float64(sm[1]))
			}
			metas = append(metas, chunks.Meta{MinTime: ch[0][0], MaxTime: ch[len(ch)-1][0], Chunk: xc})
			coqChunks = append(coqChunks, coqSamples(ch))
			nchunks++
		}
		lset := labels.New(ls...)
		ms := metas
		blockMetas = append(blockMetas, metas)
		blockLsets = append(blockLsets, lset)
		css = append(css, &storage.ChunkSeriesEntry{Lset: lset, ChunkIteratorFn: func(chunks.Iterator) chunks.Iterator {
			return storage.NewListChunkSeriesIterator(ms...)
		}})
		coqSeries = append(coqSeries, common.Pair(coqLabels(s.Labels), common.List(coqChunks)))
	}
	var vs []string
	for v := range vals {
		vs = append(vs, v)
	}
	sort.Strings(vs)
	// requests
	var reqs []metadata.DeletionRequest
	var coqReqs, rt []string
	seenRe := map[string]bool{}
	nIntervals := 0
	for _, r := range in.Reqs {
		var ms []*labels.Matcher
		var cm []string
		for _, m := range r.Matchers {
			lm, err := labels.NewMatcher(matchType(m.T), m.N, m.V)
			if err != nil {
				return c, err
			}
			ms = append(ms, lm)
			cm = append(cm, common.App("Matcher", common.N(uint64(m.T&3)), common.Bytes(m.N), common.Bytes(m.V)))
			if m.T&3 >= 2 && !seenRe[m.V] {
				seenRe[m.V] = true
				pos := labels.MustNewMatcher(labels.MatchRegexp, m.N, m.V)
				for _, v := range vs {
					rt = append(rt, common.Pair(common.Pair(common.Bytes(m.V), common.Bytes(v)), common.Bool(pos.Matches(v))))
				}
			}
		}
		var ivs tombstones.Intervals
		var civ []string
		for _, iv := range r.Intervals {
			ivs = append(ivs, tombstones.Interval{Mint: iv[0], Maxt: iv[1]})
			civ = append(civ, common.Pair(common.Z(iv[0]), common.Z(iv[1])))
			nIntervals++
		}
		reqs = append(reqs, metadata.DeletionRequest{Matchers: ms, Intervals: ivs})
		coqReqs = append(coqReqs, common.Pair(common.List(cm), common.List(civ)))
	}
	var outs []outSeries
	var coqOut []string
	failed := false
	if in.Kind == "block" {
		var err error
		outs, failed, err = rewriteBlock(blockLsets, blockMetas, reqs)
		if err != nil {
			return c, err
		}
		for _, os := range outs {
			var cchunks []string
			for _, oc := range os.Chunks {
				cchunks = append(cchunks, common.Tuple(common.Z(oc.Min), common.Z(oc.Max), coqSamples(oc.Samples)))
			}
			coqOut = append(coqOut, common.Pair(coqLabels(os.Labels), common.List(cchunks)))
		}
	} else {
		lg := &nopLog{}
		_, set := compactv2.WithDeletionModifier(reqs...).Modify(nil, &listSet{ss: css, idx: -1}, lg, lg)
		for set.Next() {
			s := set.At()
			os := outSeries{}
			s.Labels().Range(func(l labels.Label) { os.Labels = append(os.Labels, [2]string{l.Name, l.Value}) })
			it := s.Iterator(nil)
			var cchunks []string
			for it.Next() {
				m := it.At()
				oc := outChunk{Min: m.MinTime, Max: m.MaxTime}
				sit := m.Chunk.Iterator(nil)
				for sit.Next() != chunkenc.ValNone {
					t, v := sit.At()
					oc.Samples = append(oc.Samples, [2]int64{t, int64(v)})
				}
				os.Chunks = append(os.Chunks, oc)
				cchunks = append(cchunks, common.Tuple(common.Z(oc.Min), common.Z(oc.Max), coqSamples(oc.Samples)))
			}
			if it.Err() != nil {
				failed = true
			}
			outs = append(outs, os)
			coqOut = append(coqOut, common.Pair(coqLabels(os.Labels), common.List(cchunks)))
		}
		if set.Err() != nil {
			failed = true
		}
	}
	ctor := "CDel"
	if in.Kind == "block" {
		ctor = "CBlock"
	}
	c.Coq = common.App(ctor, common.List(coqReqs), common.List(rt), common.List(coqSeries), common.List(coqOut), common.Bool(failed))
	c.Obs = map[string]any{"series": outs, "error": failed}
	c.Class = fmt.Sprintf("%sreqs=%d", map[bool]string{true: "block/", false: ""}[in.Kind == "block"], len(in.Reqs))
	c.Nontrivial = len(in.Reqs) >= 1 && nchunks >= 2 && nIntervals >= 1
	// Go-side predicate (search aid): per input series, surviving samples = samples outside the
	// intervals of the requests that apply; series with an applying interval-less request vanish.
	type key string
	got := map[key][][2]int64{}
	for _, o := range outs {
		var all [][2]int64
		for _, ch := range o.Chunks {
			all = append(all, ch.Samples...)
		}
		got[key(fmt.Sprint(o.Labels))] = all
	}
	for _, s := range in.Series {
		whole := false
		var ivs [][2]int64
		for ri, r := range in.Reqs {
			applies := true
			for _, m := range reqs[ri].Matchers {
				v := ""
				for _, l := range s.Labels {
					if l[0] == m.Name {
						v = l[1]
					}
				}
				if v == "" || !m.Matches(v) {
					applies = false
				}
			}
			if !applies {
				continue
			}
			if len(r.Intervals) == 0 {
				whole = true
			}
			ivs = append(ivs, r.Intervals...)
		}
		var want [][2]int64
		if !whole {
			for _, ch := range s.Chunks {
				for _, sm := range ch {
					del := false
					for _, iv := range ivs {
						if iv[0] <= sm[0] && sm[0] <= iv[1] {
							del = true
						}
					}
					if !del {
						want = append(want, sm)
					}
				}
			}
		}
		g, present := got[key(fmt.Sprint(s.Labels))]
		if whole {
			if present {
				c.GoPred, c.Sig = "series selected for whole deletion is still present", "whole-series-kept"
			}
			continue
		}
		if in.Kind == "block" && !present && len(want) == 0 {
			continue // a series left without samples is not written
		}
		if fmt.Sprint(g) != fmt.Sprint(want) && c.GoPred == "" {
			if len(g) < len(want) {
				c.GoPred = fmt.Sprintf("series %v: samples outside the requested intervals were removed (kept %d of %d)", s.Labels, len(g), len(want))
				c.Sig = "removed-outside-intervals"
			} else {
				c.GoPred = fmt.Sprintf("series %v: samples inside the requested intervals were kept", s.Labels)
				c.Sig = "kept-inside-intervals"
			}
		}
	}
	return c, nil
}

// rewriteBlock writes the series into a real TSDB block (explicit chunk layout),
// runs Compactor.WriteSeries with the deletion modifier into a new block and
// reads the new block back.
func rewriteBlock(lsets []labels.Labels, metas [][]chunks.Meta, reqs []metadata.DeletionRequest) ([]outSeries, bool, error) {
	ctx := context.Background()
	logger := log.NewNopLogger()
	tmp, err := os.MkdirTemp("", "c48")
	if err != nil {
		return nil, false, err
	}
	defer os.RemoveAll(tmp)
	id1 := ulid.MustNew(1, nil)
	bdir := filepath.Join(tmp, id1.String())
	if err := os.MkdirAll(bdir, 0o777); err != nil {
		return nil, false, err
	}
	// source block
	d, err := block.NewDiskWriter(ctx, logger, bdir)
	if err != nil {
		return nil, false, err
	}
	symbols := map[string]struct{}{}
	for _, ls := range lsets {
		ls.Range(func(l labels.Label) {
			symbols[l.Name] = struct{}{}
			symbols[l.Value] = struct{}{}
		})
	}
	var syms []string
	for s := range symbols {
		syms = append(syms, s)
	}
	sort.Strings(syms)
	for _, s := range syms {
		if err := d.AddSymbol(s); err != nil {
			return nil, false, err
		}
	}
	for i, ls := range lsets {
		if err := d.WriteChunks(metas[i]...); err != nil {
			return nil, false, err
		}
		if err := d.AddSeries(storage.SeriesRef(i), ls, metas[i]...); err != nil {
			return nil, false, err
		}
	}
	if _, err := d.Flush(); err != nil {
		return nil, false, err
	}
	if err := (metadata.Meta{BlockMeta: tsdb.BlockMeta{Version: 1, ULID: id1}}).WriteToDir(logger, bdir); err != nil {
		return nil, false, err
	}
	pool := chunkenc.NewPool()
	b, err := tsdb.OpenBlock(logutil.GoKitLogToSlog(logger), bdir, pool, nil)
	if err != nil {
		return nil, false, err
	}
	defer b.Close()
	// rewrite
	id2 := ulid.MustNew(2, nil)
	ndir := filepath.Join(tmp, id2.String())
	w, err := block.NewDiskWriter(ctx, logger, ndir)
	if err != nil {
		return nil, false, err
	}
	lg := &nopLog{}
	comp := compactv2.New(tmp, logger, lg, pool)
	if err := comp.WriteSeries(ctx, []block.Reader{b}, w, compactv2.NewProgressLogger(logger, len(lsets)), compactv2.WithDeletionModifier(reqs...)); err != nil {
		_, _ = w.Flush()
		return nil, true, nil
	}
	if err := os.MkdirAll(ndir, 0o777); err != nil {
		return nil, false, err
	}
	if _, err := w.Flush(); err != nil {
		return nil, true, nil
	}
	// read back
	indexr, err := index.NewFileReader(filepath.Join(ndir, block.IndexFilename), index.DecodePostingsRaw)
	if err != nil {
		return nil, false, err
	}
	defer indexr.Close()
	chunkr, err := chunks.NewDirReader(filepath.Join(ndir, block.ChunksDirname), nil)
	if err != nil {
		return nil, false, err
	}
	defer chunkr.Close()
	k, v := index.AllPostingsKey()
	all, err := indexr.Postings(ctx, k, v)
	if err != nil {
		return nil, false, err
	}
	all = indexr.SortedPostings(all)
	var builder labels.ScratchBuilder
	var chks []chunks.Meta
	var outs []outSeries
	for all.Next() {
		if err := indexr.Series(all.At(), &builder, &chks); err != nil {
			return nil, false, err
		}
		os := outSeries{}
		builder.Labels().Range(func(l labels.Label) { os.Labels = append(os.Labels, [2]string{l.Name, l.Value}) })
		for _, cm := range chks {
			ch, _, err := chunkr.ChunkOrIterable(cm)
			if err != nil {
				return nil, false, err
			}
			oc := outChunk{Min: cm.MinTime, Max: cm.MaxTime}
			it := ch.Iterator(nil)
			for it.Next() != chunkenc.ValNone {
				t, v := it.At()
				oc.Samples = append(oc.Samples, [2]int64{t, int64(v)})
			}
			os.Chunks = append(os.Chunks, oc)
		}
		outs = append(outs, os)
	}
	return outs, false, all.Err()
}

// ---- generators ----
var (
	lnames  = []string{"a", "b", "job"}
	lvalues = []string{"x", "y", "z", "xy"}
	mvalues = []string{"x", "y", "z", "xy", "", "x|y", ".*", ".+", "x.*"}
)

func gen(r *rand.Rand, tier string, n int) []any {
	var out []any
	maxSeries, maxChunks, maxSamples := 4, 4, 5
	if tier == "thorough" {
		maxSeries, maxChunks, maxSamples = 8, 8, 12
	}
	for i := 0; i < n; i++ {
		var in input
		base := common.Pick(r, int64(0), 0, 1000, 1600000000000, -50)
		seen := map[string]bool{}
		for s := 0; s < 1+r.Intn(maxSeries); s++ {
			var ls [][2]string
			for _, nme := range lnames {
				if r.Intn(3) > 0 {
					ls = append(ls, [2]string{nme, common.Pick(r, lvalues...)})
				}
			}
			if seen[fmt.Sprint(ls)] {
				continue
			}
			seen[fmt.Sprint(ls)] = true
			se := seriesIn{Labels: ls}
			t := base + int64(r.Intn(20))
			for c := 0; c < r.Intn(maxChunks+1); c++ {
				var ch [][2]int64
				for k := 0; k < 1+r.Intn(maxSamples); k++ {
					ch = append(ch, [2]int64{t, int64(r.Intn(1000))})
					t += int64(1 + r.Intn(10))
				}
				se.Chunks = append(se.Chunks, ch)
				t += int64(r.Intn(15))
			}
			in.Series = append(in.Series, se)
		}
		sort.Slice(in.Series, func(a, b int) bool {
			return fmt.Sprint(in.Series[a].Labels) < fmt.Sprint(in.Series[b].Labels)
		})
		for q := 0; q < r.Intn(4); q++ {
			var rq reqIn
			for m := 0; m < 1+r.Intn(2); m++ {
				name := common.Pick(r, lnames...)
				if r.Intn(10) == 0 {
					name = "missing"
				}
				rq.Matchers = append(rq.Matchers, mIn{T: common.Pick(r, 0, 0, 0, 1, 2, 2, 3), N: name, V: common.Pick(r, mvalues...)})
			}
			switch r.Intn(7) {
			case 0: // whole series
			case 1, 2: // pin-point deletions of individual samples of one series, by a request that applies to it
				if len(in.Series) > 0 {
					s := in.Series[r.Intn(len(in.Series))]
					if len(s.Labels) > 0 && r.Intn(4) > 0 {
						l := s.Labels[r.Intn(len(s.Labels))]
						rq.Matchers = []mIn{{T: 0, N: l[0], V: l[1]}}
					}
					for _, ch := range s.Chunks {
						switch r.Intn(3) {
						case 0: // every sample of the chunk, one interval per sample
							for _, sm := range ch {
								rq.Intervals = append(rq.Intervals, [2]int64{sm[0], sm[0]})
							}
						case 1:
							for _, sm := range ch {
								if r.Intn(2) == 0 {
									rq.Intervals = append(rq.Intervals, [2]int64{sm[0] - int64(r.Intn(2)), sm[0] + int64(r.Intn(2))})
								}
							}
						}
					}
				}
				if len(rq.Intervals) == 0 {
					rq.Intervals = [][2]int64{{base, base + 5}}
				}
				r.Shuffle(len(rq.Intervals), func(a, b int) { rq.Intervals[a], rq.Intervals[b] = rq.Intervals[b], rq.Intervals[a] })
			default:
				for k := 0; k < 1+r.Intn(3); k++ {
					lo := base + int64(r.Intn(120)) - 10
					rq.Intervals = append(rq.Intervals, [2]int64{lo, lo + int64(r.Intn(40))})
				}
			}
			in.Reqs = append(in.Reqs, rq)
		}
		if r.Intn(7) == 0 {
			in.Kind = "block"
		}
		out = append(out, in)
	}
	return out
}

func main() {
	common.Main(common.Prop{ID: "C48", Facts: facts, Gen: gen, Run: run, QuickN: 400, ThoroughN: 5000,
		Preamble: "Open Scope Z_scope.\n"})
}
