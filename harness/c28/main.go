// C28: a block is visible in object storage only when all its files are.
//
// One input is a scenario: a universe of fake blocks and a sequence of actions
// (block.Upload, block.Delete, block.MarkForDeletion on an origin or a target
// bucket, ensureBlockIsReplicated origin->target), each optionally cut by a
// crash after k mutating bucket operations (the calling goroutine is frozen
// inside the bucket call, exactly as a process death would leave the bucket).
// The case carries, per action, the recorded mutating operations and the bucket
// listing after every one of them.
package main

import (
	"context"
	"encoding/json"
	"fmt"
	"go/ast"
	"io"
	"math/rand"
	"os"
	"path/filepath"
	"sort"
	"strings"

	"github.com/go-kit/log"
	"github.com/prometheus/client_golang/prometheus"
	"github.com/thanos-io/objstore"

	"github.com/thanos-io/thanos/pkg/block"
	"github.com/thanos-io/thanos/pkg/block/metadata"
	"github.com/thanos-io/thanos/pkg/replicate"
	"github.com/thanos-io/thanos/zzverif/common"
	cu "github.com/thanos-io/thanos/zzverif/crashutil"
)

type stepIn struct {
	Act   string `json:"act"`   // upload | delete | mark | replicate
	Side  int    `json:"side"`  // 0 origin bucket, 1 target bucket
	Block int    `json:"block"` // block number
	Crash int    `json:"crash"` // -1: none; k: the process dies after k mutating bucket operations
	Conc  int    `json:"conc"`  // upload concurrency (0 = default)
	// act "repdel": ensureBlockIsReplicated origin->target interleaved with block.Delete of the same
	// block on the origin: delete operation i is performed right before the replicator's origin
	// operation number sched[i] (non-decreasing; operations not scheduled, or scheduled past the
	// replicator's last origin operation, follow when the replicator is done)
	Sched []int `json:"sched,omitempty"`
	Lex   bool  `json:"lex,omitempty"` // origin bucket lists in plain lexicographic order (S3/GCS) instead of the in-memory order
}

type input struct {
	Blocks []cu.BlockSpec `json:"blocks"`
	Steps  []stepIn       `json:"steps"`
}

// ---- tie T ----

func facts(repo string, w io.Writer) error {
	bs, err := common.ParseSrc(repo, "pkg/block/block.go")
	if err != nil {
		return err
	}
	emit := func(s *common.SrcFile, name, fn string, want map[string]int) error {
		l, err := cu.CallArgs(s, fn, want)
		if err != nil {
			return err
		}
		fmt.Fprintf(w, "(* %s: %s — source-order bucket mutations (callee, object argument) *)\n", s.Path, fn)
		fmt.Fprint(w, cu.CallArgsCoq(name, l))
		return nil
	}
	rhs := func(s *common.SrcFile, name, fn, ident string) error {
		e, err := s.RHS(fn, ident)
		if err != nil {
			return err
		}
		fmt.Fprintf(w, "Definition %s : string := %s%%string.\n", name, common.CoqString(s.ExprString(e)))
		return nil
	}
	mut := map[string]int{"objstore.UploadDir": 4, "objstore.UploadFile": 4, "bkt.Upload": 1, "bkt.Delete": 1, "deleteDirRec": 3}
	if err := emit(bs, "upload_calls", "upload", mut); err != nil {
		return err
	}
	if err := emit(bs, "delete_calls", "Delete", mut); err != nil {
		return err
	}
	if err := rhs(bs, "delete_metaFile", "Delete", "metaFile"); err != nil {
		return err
	}
	if err := rhs(bs, "delete_deletionMarkFile", "Delete", "deletionMarkFile"); err != nil {
		return err
	}
	// the keep function handed to deleteDirRec
	fd, err := bs.FindFunc("Delete")
	if err != nil {
		return err
	}
	keep := ""
	ast.Inspect(fd.Body, func(n ast.Node) bool {
		ce, ok := n.(*ast.CallExpr)
		if !ok {
			return true
		}
		if id, ok := ce.Fun.(*ast.Ident); ok && id.Name == "deleteDirRec" && len(ce.Args) == 5 {
			if fl, ok := ce.Args[4].(*ast.FuncLit); ok && len(fl.Body.List) == 1 {
				if rs, ok := fl.Body.List[0].(*ast.ReturnStmt); ok && len(rs.Results) == 1 {
					keep = bs.ExprString(rs.Results[0])
				}
			}
		}
		return true
	})
	if keep == "" {
		return fmt.Errorf("srcfacts: block.Delete: keep function of deleteDirRec not recognised")
	}
	fmt.Fprintf(w, "Definition delete_keep : string := %s%%string.\n", common.CoqString(keep))
	if err := emit(bs, "deleteDirRec_calls", "deleteDirRec", map[string]int{"bkt.Iter": 1, "deleteDirRec": 3, "keep": 0, "bkt.Delete": 1, "bkt.Upload": 1}); err != nil {
		return err
	}
	rs, err := common.ParseSrc(repo, "pkg/replicate/scheme.go")
	if err != nil {
		return err
	}
	// every existence test the function itself makes on the target is listed too: the decision to copy an
	// object belongs to ensureObjectReplicated alone (no early-out in ensureBlockIsReplicated)
	rmut := map[string]int{"rs.fromBkt.Iter": 1, "rs.ensureObjectReplicated": 1, "rs.toBkt.Upload": 1, "rs.toBkt.Delete": 1, "rs.toBkt.Exists": 1, "rs.fromBkt.Exists": 1}
	if err := emit(rs, "replicate_calls", "replicationScheme.ensureBlockIsReplicated", rmut); err != nil {
		return err
	}
	for _, id := range []string{"chunksDir", "indexFile", "metaFile"} {
		if err := rhs(rs, "replicate_"+id, "replicationScheme.ensureBlockIsReplicated", id); err != nil {
			return err
		}
	}
	return emit(rs, "ensureObjectReplicated_calls", "replicationScheme.ensureObjectReplicated",
		map[string]int{"rs.toBkt.Exists": 1, "rs.fromBkt.Get": 1, "rs.toBkt.Upload": 1, "rs.toBkt.Delete": 1})
}

// ---- running the real code ----

// metaProblem evaluates the property on one bucket listing (Go-side search aid).
func metaProblem(snap map[string][]byte) string {
	for name, body := range snap {
		if !strings.HasSuffix(name, "/"+block.MetaFilename) {
			continue
		}
		dir := strings.TrimSuffix(name, block.MetaFilename)
		var m metadata.Meta
		if err := json.Unmarshal(body, &m); err != nil {
			return "meta.json of " + dir + " does not parse"
		}
		for _, f := range m.Thanos.Files {
			if f.RelPath == block.MetaFilename {
				continue
			}
			b, ok := snap[dir+filepath.ToSlash(f.RelPath)]
			if !ok {
				return fmt.Sprintf("%smeta.json is present but %s is missing", dir, f.RelPath)
			}
			if int64(len(b)) != f.SizeBytes {
				return fmt.Sprintf("%smeta.json records %d bytes for %s, the bucket has %d", dir, f.SizeBytes, f.RelPath, len(b))
			}
		}
	}
	return ""
}

func run(raw json.RawMessage) (common.Case, error) {
	var in input
	if err := json.Unmarshal(raw, &in); err != nil {
		return common.Case{}, err
	}
	var c common.Case
	tmp, err := os.MkdirTemp("", "c28-")
	if err != nil {
		return c, err
	}
	defer os.RemoveAll(tmp)
	env := cu.NewEnv()
	var univ []string
	for i, s := range in.Blocks {
		id, err := cu.WriteBlock(tmp, i, s)
		if err != nil {
			return c, err
		}
		env.AddBlock(id, i)
		univ = append(univ, common.App("ublk", common.N(uint64(i)), env.BlkCoq(s)))
	}
	// blocks referenced but not in the universe still get their number
	for _, st := range in.Steps {
		if st.Block >= len(in.Blocks) {
			env.AddBlock(cu.BlockULID(st.Block), st.Block)
		}
	}
	inner := [2]*objstore.InMemBucket{objstore.NewInMemBucket(), objstore.NewInMemBucket()}
	ctx := context.Background()
	logger := log.NewNopLogger()
	var teardown []func()
	defer func() {
		for _, f := range teardown {
			f()
		}
	}()

	var steps []string
	var obs []any
	classes := map[string]bool{}
	crashes, totalOps := 0, 0
	for si, st := range in.Steps {
		if st.Act == "repdel" {
			id := cu.BlockULID(st.Block)
			preO := inner[0].Objects()
			delRB := cu.NewRecBucket(inner[0])
			delRB.Permit = make(chan struct{})
			delRB.Stepped = make(chan struct{}, 1000)
			delRB.LexIter = st.Lex
			delDone := make(chan error, 1)
			go func() { delDone <- block.Delete(ctx, logger, delRB, id) }()
			finished := false
			var derr error
			stepDel := func() { // let the deleter perform one mutating operation
				if finished {
					return
				}
				select {
				case delRB.Permit <- struct{}{}:
					select {
					case <-delRB.Stepped:
					case derr = <-delDone:
						finished = true
					}
				case derr = <-delDone:
					finished = true
				}
			}
			next := 0
			from := cu.NewRecBucket(inner[0])
			from.CountReads = true
			from.LexIter = st.Lex
			from.BeforeOp = func(idx int) {
				for next < len(st.Sched) && st.Sched[next] <= idx {
					stepDel()
					next++
				}
			}
			rb := cu.NewRecBucket(inner[1])
			rerr := replicate.VerifC28EnsureBlockIsReplicated(ctx, logger, from, rb, id)
			close(delRB.Permit) // the rest of the deletion runs freely
			if !finished {
				derr = <-delDone
			}
			ropsAll := cu.MutOps(rb.Ops())
			dopsAll := cu.MutOps(delRB.Ops())
			totalOps += len(ropsAll) + len(dopsAll)
			classes["replicate"], classes["delete"], classes["interleaved"] = true, true, true
			render := func(ops []cu.Op, who string) (opsC, snapsC, names []string) {
				for _, o := range ops {
					opsC = append(opsC, env.OpCoq(o))
					snapsC = append(snapsC, env.BucketCoq(o.Snap))
					names = append(names, o.Kind+" "+o.Name)
					if p := metaProblem(o.Snap); p != "" && c.GoPred == "" {
						c.GoPred = fmt.Sprintf("step %d (replicate interleaved with delete of the origin block; %s) after %q: %s", si, who, o.Kind+" "+o.Name, p)
						c.Sig = "visible-incomplete"
						if st.Lex {
							// the replicator lists chunks/ after the deleter removed some of them and still finds the index
							c.Sig = "replicate-races-delete-lexicographic-listing"
						}
					}
				}
				return
			}
			rC, rS, rN := render(ropsAll, "target bucket")
			dC, dS, dN := render(dopsAll, "origin bucket")
			// the deleter's order of the files (as for a plain delete)
			var order []string
			seen := map[string]bool{}
			metaN, markN := id.String()+"/"+block.MetaFilename, id.String()+"/"+metadata.DeletionMarkFilename
			for _, o := range dopsAll {
				if o.Name == metaN || o.Name == markN || strings.HasSuffix(o.Name, "/") {
					continue
				}
				order = append(order, env.ParseName(o.Name).File.Coq())
				seen[o.Name] = true
			}
			for _, n := range cu.SortedNames(preO) {
				if strings.HasPrefix(n, id.String()+"/") && !seen[n] && n != metaN && n != markN && !strings.HasSuffix(n, "/") {
					order = append(order, env.ParseName(n).File.Coq())
				}
			}
			var sched []string
			for _, x := range st.Sched {
				sched = append(sched, common.Nat(x))
			}
			bn := common.N(uint64(st.Block))
			steps = append(steps,
				common.App("mkstep", common.App("ARepDel", bn, common.List(sched), common.List(order)), common.None, common.Bool(rerr == nil), common.List(rC), common.List(rS)),
				common.App("mkstep", common.App("ADelete", "false", bn, common.List(order)), common.None, common.Bool(derr == nil), common.List(dC), common.List(dS)))
			obs = append(obs, map[string]any{"step": si, "act": "repdel", "replicate_returned_nil": rerr == nil, "replicate_ops": rN, "delete_ops": dN,
				"origin_ops_of_replicator": from.Counted(), "sched": st.Sched, "lex": st.Lex})
			continue
		}
		side := st.Side
		if st.Act == "replicate" {
			side = 1
		}
		if side != 0 {
			side = 1
		}
		rb := cu.NewRecBucket(inner[side])
		rb.CrashAt = st.Crash
		rb.LexIter = st.Lex // the bucket lists in plain lexicographic order (S3/GCS) instead of the in-memory order
		pre := inner[side].Objects()
		id := cu.BlockULID(st.Block)
		var f func() error
		switch st.Act {
		case "upload":
			f = func() error {
				var opts []objstore.UploadOption
				if st.Conc > 1 {
					opts = append(opts, objstore.WithUploadConcurrency(st.Conc))
				}
				return block.Upload(ctx, logger, rb, filepath.Join(tmp, id.String()), metadata.NoneFunc, opts...)
			}
		case "delete":
			f = func() error { return block.Delete(ctx, logger, rb, id) }
		case "mark":
			f = func() error {
				return block.MarkForDeletion(ctx, logger, rb, id, "verif", prometheus.NewCounter(prometheus.CounterOpts{Name: "x"}))
			}
		case "replicate":
			from := cu.NewRecBucket(inner[0])
			from.LexIter = st.Lex
			f = func() error { return replicate.VerifC28EnsureBlockIsReplicated(ctx, logger, from, rb, id) }
		default:
			return c, fmt.Errorf("step %d: bad action %q", si, st.Act)
		}
		rerr, crashed, wait := cu.RunAction(rb, f)
		teardown = append(teardown, func() { rb.Release(); wait() })
		ops := cu.MutOps(rb.Ops())
		totalOps += len(ops)
		if crashed {
			crashes++
		}
		classes[st.Act] = true

		// Coq action term (with the oracles read off the trace)
		var act string
		sideC := common.Bool(side == 1)
		bn := common.N(uint64(st.Block))
		switch st.Act {
		case "upload":
			var order []string
			seen := map[uint64]bool{}
			cid := 0
			for _, o := range ops {
				k := env.ParseName(o.Name)
				if k.File.Kind == "chunk" {
					order = append(order, common.N(k.File.N))
					seen[k.File.N] = true
				}
				if k.File.Kind == "meta" && o.Kind == "upload" {
					cid = env.Cid(o.Body)
				}
			}
			if st.Block < len(in.Blocks) {
				for j := range in.Blocks[st.Block].Chunks {
					if !seen[uint64(j+1)] {
						order = append(order, common.N(uint64(j+1)))
					}
				}
			}
			act = common.App("AUpload", sideC, bn, common.List(order), common.N(uint64(cid)))
		case "delete":
			// deleteDirRec's order as observed; what a crash cut off follows in listing order
			var order []string
			seen := map[string]bool{}
			metaN, markN := id.String()+"/"+block.MetaFilename, id.String()+"/"+metadata.DeletionMarkFilename
			for _, o := range ops {
				if o.Name == metaN || o.Name == markN || strings.HasSuffix(o.Name, "/") {
					continue
				}
				order = append(order, env.ParseName(o.Name).File.Coq())
				seen[o.Name] = true
			}
			for _, n := range cu.SortedNames(pre) {
				if strings.HasPrefix(n, id.String()+"/") && !seen[n] && n != metaN && n != markN && !strings.HasSuffix(n, "/") {
					order = append(order, env.ParseName(n).File.Coq())
				}
			}
			act = common.App("ADelete", sideC, bn, common.List(order))
		case "mark":
			sz := int64(0)
			for _, o := range ops {
				if o.Kind == "upload" {
					sz = int64(len(o.Body))
				}
			}
			act = common.App("AMark", sideC, bn, common.Z(sz))
		case "replicate":
			act = common.App("AReplicate", bn)
		}
		crash := common.None
		if st.Crash >= 0 {
			crash = common.Some(common.Nat(st.Crash))
		}
		var opsC, snapsC []string
		var opNames []string
		for _, o := range ops {
			opsC = append(opsC, env.OpCoq(o))
			snapsC = append(snapsC, env.BucketCoq(o.Snap))
			opNames = append(opNames, o.Kind+" "+o.Name)
			if p := metaProblem(o.Snap); p != "" && c.GoPred == "" {
				c.GoPred = fmt.Sprintf("step %d (%s) after %q: %s", si, st.Act, o.Kind+" "+o.Name, p)
				c.Sig = "visible-incomplete"
			}
			if st.Act == "delete" && c.GoPred == "" {
				mark := id.String() + "/" + metadata.DeletionMarkFilename
				if _, had := pre[mark]; had {
					if _, has := o.Snap[mark]; !has {
						for n := range o.Snap {
							if strings.HasPrefix(n, id.String()+"/") && !strings.HasSuffix(n, "/") {
								c.GoPred = fmt.Sprintf("step %d (delete) after %q: deletion mark gone while %s is still there", si, o.Kind+" "+o.Name, n)
								c.Sig = "mark-lost"
							}
						}
					}
				}
			}
		}
		ret := !crashed && rerr == nil
		if ret && c.GoPred == "" {
			post := inner[side].Objects()
			switch st.Act {
			case "upload":
				if _, ok := post[id.String()+"/"+block.MetaFilename]; !ok {
					c.GoPred = fmt.Sprintf("step %d: upload returned nil but meta.json is not in the bucket", si)
					c.Sig = "upload-not-visible"
				}
			case "delete":
				for n := range post {
					if strings.HasPrefix(n, id.String()+"/") && !strings.HasSuffix(n, "/") {
						c.GoPred = fmt.Sprintf("step %d: delete returned nil but %s is still in the bucket", si, n)
						c.Sig = "delete-incomplete"
					}
				}
			}
		}
		steps = append(steps, common.App("mkstep", act, crash, common.Bool(ret), common.List(opsC), common.List(snapsC)))
		obs = append(obs, map[string]any{"step": si, "act": st.Act, "crashed": crashed, "returned_nil": ret, "ops": opNames})
	}
	c.Coq = common.App("CScen", common.List(univ), common.List(steps))
	var cl []string
	for _, k := range []string{"upload", "delete", "mark", "replicate", "interleaved"} {
		if classes[k] {
			cl = append(cl, k)
		}
	}
	c.Class = strings.Join(cl, "+")
	c.Nontrivial = (crashes >= 1 || classes["interleaved"]) && totalOps >= 4
	c.Obs = obs
	return c, nil
}

// ---- generator ----

func gen(r *rand.Rand, tier string, n int) []any {
	var out []any
	maxChunks, maxSteps := 3, 8
	if tier == "thorough" {
		maxChunks, maxSteps = 6, 14
	}
	for i := 0; i < n; i++ {
		var in input
		nb := 1 + r.Intn(3)
		for b := 0; b < nb; b++ {
			s := cu.BlockSpec{Index: common.Between(r, 0, 60), NumSamples: 10, Level: 1, MinTime: int64(b) * 1000, MaxTime: int64(b)*1000 + 1000,
				Labels: map[string]string{"replica": common.Pick(r, "a", "b"), "cluster": "c"}}
			nc := 1 + r.Intn(maxChunks)
			if r.Intn(12) == 0 {
				nc = 0
			}
			for j := 0; j < nc; j++ {
				s.Chunks = append(s.Chunks, common.Between(r, 0, 40))
			}
			in.Blocks = append(in.Blocks, s)
		}
		ns := 3 + r.Intn(maxSteps-2)
		focus := r.Intn(nb)
		for s := 0; s < ns; s++ {
			st := stepIn{Crash: -1, Block: focus}
			if r.Intn(4) == 0 {
				st.Block = r.Intn(nb)
			}
			if r.Intn(40) == 0 {
				st.Block = nb // unknown block
			}
			switch k := r.Intn(20); {
			case k < 7:
				st.Act = "upload"
				if r.Intn(4) == 0 {
					st.Conc = 2 + r.Intn(3)
				}
			case k < 11:
				st.Act = "delete"
			case k < 14:
				st.Act = "mark"
			default:
				st.Act = "replicate"
			}
			if st.Act != "replicate" {
				st.Side = r.Intn(3) / 2 // mostly origin
			}
			if r.Intn(5) < 2 {
				st.Crash = r.Intn(maxChunks + 4)
			}
			if st.Act == "replicate" && r.Intn(3) == 0 {
				// the origin block is deleted while it is replicated
				st.Act, st.Crash = "repdel", -1
				nd := r.Intn(8)
				at := 0
				for d := 0; d < nd; d++ {
					at += r.Intn(3)
					st.Sched = append(st.Sched, at)
				}
				st.Lex = r.Intn(6) == 0
				if st.Lex && r.Intn(2) == 0 {
					// deletions bunched right before the replicator lists chunks/
					st.Sched = nil
					for d := 0; d < 1+r.Intn(4); d++ {
						st.Sched = append(st.Sched, r.Intn(3))
					}
					sort.Ints(st.Sched)
				}
			}
			if st.Act == "replicate" && r.Intn(6) == 0 {
				// replicate, a deletion of the TARGET block on a lexicographically listing bucket dies
				// at some point, replicate again
				in.Steps = append(in.Steps, st,
					stepIn{Act: "delete", Side: 1, Block: st.Block, Crash: r.Intn(maxChunks + 4), Lex: true})
				st.Crash = -1
			}
			in.Steps = append(in.Steps, st)
			// a cut action is usually retried
			if st.Crash >= 0 && r.Intn(3) > 0 && s+1 < ns {
				st.Crash = -1
				if r.Intn(4) == 0 {
					st.Crash = r.Intn(maxChunks + 4)
				}
				in.Steps = append(in.Steps, st)
				s++
			}
		}
		out = append(out, in)
	}
	return out
}

func main() {
	common.Main(common.Prop{ID: "C28", Facts: facts, Gen: gen, Run: run, QuickN: 400, ThoroughN: 6000,
		Preamble: "From Verif Require Import Lib.Crash_Store Lib.Crash_Block.\nImport C28.\n"})
}
