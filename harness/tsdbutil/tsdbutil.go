// Package tsdbutil is shared by the harnesses that run a real TSDBStore over a real
// Prometheus TSDB (C08, C07): scenario databases, matcher oracles and Coq printers
// for the types of Model/C05.v / Model/C08.v.
package tsdbutil

import (
	"context"
	"encoding/json"
	"fmt"
	"math"
	"os"
	"sort"

	"github.com/cespare/xxhash/v2"
	"github.com/prometheus/prometheus/model/labels"
	"github.com/prometheus/prometheus/tsdb"

	"github.com/thanos-io/thanos/pkg/store/storepb"
	"github.com/thanos-io/thanos/zzverif/common"
)

type Lbl [2]string

type MatcherIn struct {
	Type  int    `json:"type"` // 0 EQ 1 NEQ 2 RE 3 NRE
	Name  string `json:"name"`
	Value string `json:"value"`
}

type SeriesIn struct {
	Labels  []Lbl `json:"labels"`
	NChunks int   `json:"nchunks"`
	// T0: first sample timestamp (ms); samples are 1 ms apart, 4 per chunk
	T0 int64 `json:"t0"`
}

func MkLabels(ls []Lbl) labels.Labels {
	out := make([]labels.Label, 0, len(ls))
	for _, l := range ls {
		out = append(out, labels.Label{Name: l[0], Value: l[1]})
	}
	return labels.New(out...)
}

func CoqLabels(l labels.Labels) string {
	var ps []string
	l.Range(func(x labels.Label) {
		ps = append(ps, common.Pair(common.Bytes(x.Name), common.Bytes(x.Value)))
	})
	return common.List(ps)
}

func CoqStrs(xs []string) string {
	var ps []string
	for _, x := range xs {
		ps = append(ps, common.Bytes(x))
	}
	return common.List(ps)
}

func ToPB(ms []MatcherIn) []storepb.LabelMatcher {
	out := make([]storepb.LabelMatcher, 0, len(ms))
	for _, m := range ms {
		out = append(out, storepb.LabelMatcher{Type: storepb.LabelMatcher_Type(m.Type), Name: m.Name, Value: m.Value})
	}
	return out
}

// CoqMatchers renders matchers as Model.C05 `MkM id name table` with the truth table of the
// real labels.Matcher.Matches over the universe of strings.
func CoqMatchers(ms []MatcherIn, universe map[string]struct{}) (string, []*labels.Matcher, error) {
	pm, err := storepb.MatchersToPromMatchers(ToPB(ms)...)
	if err != nil {
		return "", nil, err
	}
	var uni []string
	for v := range universe {
		uni = append(uni, v)
	}
	sort.Strings(uni)
	var out []string
	for i, m := range pm {
		var rows []string
		for _, v := range uni {
			rows = append(rows, common.Pair(common.Bytes(v), common.Bool(m.Matches(v))))
		}
		out = append(out, common.App("MkM", common.Nat(i), common.Bytes(m.Name), common.List(rows)))
	}
	return common.List(out), pm, nil
}

func AddValues(u map[string]struct{}, l labels.Labels) {
	l.Range(func(x labels.Label) { u[x.Value] = struct{}{} })
}

// ---- scenario databases ----

type StoredChunk struct {
	Min, Max int64
	Size     int64 // storepb.AggrChunk.Size() of the chunk as TSDBStore sends it
}

type StoredSeries struct {
	Labels labels.Labels
	Chunks []StoredChunk
}

type Scenario struct {
	DB     *tsdb.DB
	dir    string
	key    string
	Stored []StoredSeries // as an independent full read of the database returns them (sorted by labels)
}

var current *Scenario

// Cleanup closes and removes the cached scenario database.
func Cleanup() {
	if current != nil {
		_ = current.DB.Close()
		_ = os.RemoveAll(current.dir)
		current = nil
	}
}

// GetScenario returns a TSDB holding the given series (cached while consecutive inputs use the same series).
func GetScenario(series []SeriesIn) (*Scenario, error) {
	kb, _ := json.Marshal(series)
	key := string(kb)
	if current != nil && current.key == key {
		return current, nil
	}
	Cleanup()
	dir, err := os.MkdirTemp("", "verif-tsdb-")
	if err != nil {
		return nil, err
	}
	opts := tsdb.DefaultOptions()
	opts.RetentionDuration = math.MaxInt64
	opts.SamplesPerChunk = 4
	db, err := tsdb.Open(dir, nil, nil, opts, nil)
	if err != nil {
		return nil, err
	}
	db.DisableCompactions()
	app := db.Appender(context.Background())
	for si, s := range series {
		l := MkLabels(s.Labels)
		for k := 0; k < 4*s.NChunks; k++ {
			if _, err := app.Append(0, l, s.T0+int64(k), float64(si*1000+k)); err != nil {
				return nil, fmt.Errorf("append %s: %w", l, err)
			}
		}
	}
	if err := app.Commit(); err != nil {
		return nil, err
	}
	sc := &Scenario{DB: db, dir: dir, key: key}
	// independent read of what is stored
	q, err := db.ChunkQuerier(math.MinInt64, math.MaxInt64)
	if err != nil {
		return nil, err
	}
	defer q.Close()
	set := q.Select(context.Background(), true, nil, labels.MustNewMatcher(labels.MatchNotEqual, "__verif__", "x"))
	for set.Next() {
		s := set.At()
		ss := StoredSeries{Labels: s.Labels().Copy()}
		it := s.Iterator(nil)
		for it.Next() {
			c := it.At()
			data := append([]byte(nil), c.Chunk.Bytes()...)
			ac := storepb.AggrChunk{MinTime: c.MinTime, MaxTime: c.MaxTime,
				Raw: &storepb.Chunk{Type: storepb.Chunk_Encoding(c.Chunk.Encoding() - 1), Data: data, Hash: xxhash.Sum64(data)}}
			ss.Chunks = append(ss.Chunks, StoredChunk{Min: c.MinTime, Max: c.MaxTime, Size: int64(ac.Size())})
		}
		if err := it.Err(); err != nil {
			return nil, err
		}
		sc.Stored = append(sc.Stored, ss)
	}
	if err := set.Err(); err != nil {
		return nil, err
	}
	current = sc
	return sc, nil
}

func CoqChunk(c StoredChunk) string {
	return common.Tuple(common.Z(c.Min), common.Z(c.Max), common.Z(c.Size))
}

func CoqStored(ss []StoredSeries) string {
	var out []string
	for _, s := range ss {
		var cs []string
		for _, c := range s.Chunks {
			cs = append(cs, CoqChunk(c))
		}
		out = append(out, common.Pair(CoqLabels(s.Labels), common.List(cs)))
	}
	return common.List(out)
}
