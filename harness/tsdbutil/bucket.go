package tsdbutil

import (
	"context"
	"encoding/json"
	"fmt"
	"os"
	"path/filepath"
	"time"

	"github.com/go-kit/log"
	"github.com/prometheus/prometheus/model/labels"
	"github.com/thanos-io/objstore"

	"github.com/thanos-io/thanos/pkg/block"
	"github.com/thanos-io/thanos/pkg/block/metadata"
	"github.com/thanos-io/thanos/pkg/store"
	"github.com/thanos-io/thanos/pkg/testutil/e2eutil"
)

// BlockIn: one block of the object-storage bucket: its external labels (Thanos meta) and the
// label sets of the series stored in it.
type BlockIn struct {
	Ext    []Lbl   `json:"ext"`
	Series [][]Lbl `json:"series"`
}

type BlockOracle struct {
	Ext    labels.Labels
	Stored []labels.Labels
}

type BucketScenario struct {
	Store  *store.BucketStore
	Blocks []BlockOracle
	dir    string
	key    string
}

var currentBucket *BucketScenario

func CleanupBucket() {
	if currentBucket != nil {
		_ = currentBucket.Store.Close()
		_ = os.RemoveAll(currentBucket.dir)
		currentBucket = nil
	}
}

// GetBucketScenario builds the blocks with e2eutil.CreateBlock, uploads them into an in-memory
// bucket and returns a synced BucketStore over it (cached while consecutive inputs use the same blocks).
func GetBucketScenario(blocks []BlockIn) (*BucketScenario, error) {
	kb, _ := json.Marshal(blocks)
	key := string(kb)
	if currentBucket != nil && currentBucket.key == key {
		return currentBucket, nil
	}
	CleanupBucket()
	ctx := context.Background()
	dir, err := os.MkdirTemp("", "verif-bkt-")
	if err != nil {
		return nil, err
	}
	sc := &BucketScenario{dir: dir, key: key}
	bkt := objstore.NewInMemBucket()
	for _, b := range blocks {
		ext := MkLabels(b.Ext)
		var series []labels.Labels
		for _, s := range b.Series {
			series = append(series, MkLabels(s))
		}
		id, err := e2eutil.CreateBlock(ctx, dir, series, 3, 0, 1000, ext, 0, metadata.NoneFunc, nil)
		if err != nil {
			return nil, fmt.Errorf("create block: %w", err)
		}
		if err := block.Upload(ctx, log.NewNopLogger(), bkt, filepath.Join(dir, id.String()), metadata.NoneFunc); err != nil {
			return nil, fmt.Errorf("upload: %w", err)
		}
		sc.Blocks = append(sc.Blocks, BlockOracle{Ext: ext, Stored: series})
	}
	sdir := filepath.Join(dir, "store")
	if err := os.MkdirAll(sdir, 0o755); err != nil {
		return nil, err
	}
	ins := objstore.WithNoopInstr(bkt)
	mf, err := block.NewMetaFetcher(log.NewNopLogger(), 4, ins, block.NewConcurrentLister(log.NewNopLogger(), ins), sdir, nil, nil)
	if err != nil {
		return nil, err
	}
	st, err := store.NewBucketStore(ins, mf, sdir,
		store.NewChunksLimiterFactory(0), store.NewSeriesLimiterFactory(0), store.NewBytesLimiterFactory(0),
		store.NewGapBasedPartitioner(store.PartitionerMaxGapSize), 4, store.DefaultPostingOffsetInMemorySampling,
		false, false, time.Minute)
	if err != nil {
		return nil, err
	}
	sctx, cancel := context.WithTimeout(ctx, 60*time.Second)
	err = st.SyncBlocks(sctx)
	cancel()
	if err != nil {
		return nil, fmt.Errorf("sync blocks: %w", err)
	}
	sc.Store = st
	currentBucket = sc
	return sc, nil
}
