// C37: downsampled counters preserve the raw counter's increase.
package main

import (
	"encoding/json"
	"fmt"
	"io"
	"math/rand"

	"github.com/prometheus/prometheus/tsdb/chunkenc"
	"github.com/prometheus/prometheus/tsdb/chunks"

	"github.com/thanos-io/thanos/pkg/compact/downsample"
	"github.com/thanos-io/thanos/zzverif/common"
	"github.com/thanos-io/thanos/zzverif/downsampleutil"
)

type opIn struct {
	Seek *int64 `json:"seek,omitempty"` // nil = Next
}

type input struct {
	Res1    int64                 `json:"res1"`
	Res2    int64                 `json:"res2"`
	Samples []downsampleutil.RawS `json:"samples"`
	Prog    []opIn                `json:"prog,omitempty"`
}

func facts(repo string, w io.Writer) error { return downsampleutil.WindowFacts(repo, w) }

func counterIters(metas []chunks.Meta) ([]chunkenc.Iterator, error) {
	var its []chunkenc.Iterator
	for _, m := range metas {
		c, err := m.Chunk.(*downsample.AggrChunk).Get(downsample.AggrCounter)
		if err == downsample.ErrAggrNotExist {
			continue
		}
		if err != nil {
			return nil, err
		}
		its = append(its, c.Iterator(nil))
	}
	return its, nil
}

func readAll(metas []chunks.Meta) ([]downsampleutil.S, error) {
	its, err := counterIters(metas)
	if err != nil {
		return nil, err
	}
	it := downsample.NewApplyCounterResetsIterator(its...)
	var out []downsampleutil.S
	for it.Next() != chunkenc.ValNone {
		t, v := it.At()
		z, err := downsampleutil.ToInt(v)
		if err != nil {
			return nil, err
		}
		out = append(out, downsampleutil.S{T: t, V: z})
	}
	return out, it.Err()
}

func run(raw json.RawMessage) (common.Case, error) {
	var in input
	if err := json.Unmarshal(raw, &in); err != nil {
		return common.Case{}, err
	}
	var c common.Case
	if len(in.Samples) == 0 || in.Res1 <= 0 || in.Res2 <= 0 {
		return c, fmt.Errorf("empty input")
	}
	mint0, maxt0 := in.Samples[0].T, in.Samples[len(in.Samples)-1].T
	nc1 := downsample.VerifC37TargetChunkCount(mint0, maxt0, 60000, in.Res1, len(in.Samples))
	metas := downsample.DownsampleRaw(downsample.SamplesFromTSDBSamples(downsampleutil.TSDBSamples(in.Samples)), in.Res1)
	if len(metas) == 0 {
		return c, fmt.Errorf("no first-level chunks (all NaN)")
	}
	read1, err := readAll(metas)
	if err != nil {
		return c, err
	}
	// Next/Seek program on the first-level chunks
	its, err := counterIters(metas)
	if err != nil {
		return c, err
	}
	it := downsample.NewApplyCounterResetsIterator(its...)
	var progCoq, presCoq []string
	var presObs []any
	for _, o := range in.Prog {
		var vt chunkenc.ValueType
		if o.Seek == nil {
			progCoq = append(progCoq, "ONext")
			vt = it.Next()
		} else {
			progCoq = append(progCoq, common.App("OSeek", downsampleutil.Zs(*o.Seek)))
			vt = it.Seek(*o.Seek)
		}
		if vt == chunkenc.ValNone {
			presCoq = append(presCoq, "None")
			presObs = append(presObs, nil)
			break
		}
		t, v := it.At()
		z, err := downsampleutil.ToInt(v)
		if err != nil {
			return c, err
		}
		presCoq = append(presCoq, "(Some ("+downsampleutil.Zs(t)+","+downsampleutil.Zs(z)+"))")
		presObs = append(presObs, [2]int64{t, z})
	}
	progCoq = progCoq[:len(presCoq)] // the program stops at the first ValNone
	// second level
	var acs []*downsample.AggrChunk
	numSamples := 0
	for _, m := range metas {
		ac := m.Chunk.(*downsample.AggrChunk)
		acs = append(acs, ac)
		numSamples += ac.NumSamples()
	}
	mint, maxt := metas[0].MinTime, metas[len(metas)-1].MaxTime
	nc2 := downsample.VerifC37TargetChunkCount(mint, maxt, in.Res1, in.Res2, numSamples)
	metas2, err := downsample.VerifC37DownsampleAggr(acs, mint, maxt, in.Res1, in.Res2)
	if err != nil {
		return c, fmt.Errorf("downsampleAggr: %w", err)
	}
	read2, err := readAll(metas2)
	if err != nil {
		return c, err
	}
	c.Coq = common.App("CCounter", common.Z(in.Res1), common.Z(in.Res2), common.Nat(nc1), common.Nat(nc2),
		downsampleutil.RawCoq(in.Samples), downsampleutil.SamplesCoq(read1), downsampleutil.SamplesCoq(read2),
		common.List(progCoq), common.List(presCoq))
	resets := 0
	var prev *int64
	for i := range in.Samples {
		s := in.Samples[i]
		if s.K != "" {
			continue
		}
		if prev != nil && s.V < *prev {
			resets++
		}
		v := s.V
		prev = &v
	}
	c.Obs = map[string]any{"chunks1": len(metas), "chunks2": len(metas2), "read1": len(read1), "read2": len(read2), "resets": resets, "prog": presObs}
	c.Class = fmt.Sprintf("chunks1=%s resets=%s", bucket(len(metas)), bucket(resets))
	c.Nontrivial = len(read1) >= 3 && resets >= 1
	// Go-side search aid: the last value read equals the adjusted raw counter
	if downsampleutil.ValidRaw(in.Samples) {
		var total, last int64
		first := true
		for _, s := range in.Samples {
			if s.K != "" {
				continue
			}
			switch {
			case first:
				total, first = s.V, false
			case s.V >= last:
				total += s.V - last
			default:
				total += s.V
			}
			last = s.V
		}
		if len(read1) > 0 && read1[len(read1)-1].V != total {
			c.GoPred, c.Sig = fmt.Sprintf("5m counter ends at %d, adjusted raw counter at %d", read1[len(read1)-1].V, total), "level1-increase"
		} else if len(read2) > 0 && read2[len(read2)-1].V != total {
			c.GoPred, c.Sig = fmt.Sprintf("1h counter ends at %d, adjusted raw counter at %d", read2[len(read2)-1].V, total), "level2-increase"
		}
	}
	return c, nil
}

func bucket(n int) string {
	switch {
	case n <= 1:
		return fmt.Sprint(n)
	case n <= 3:
		return "2-3"
	default:
		return "4+"
	}
}

func gen(r *rand.Rand, tier string, n int) []any {
	var out []any
	for i := 0; i < n; i++ {
		var in input
		switch k := r.Intn(10); {
		case k < 5:
			in.Res1, in.Res2 = downsample.ResLevel1, downsample.ResLevel2
		case k < 6:
			in.Res1, in.Res2 = 60000, 300000
		default:
			in.Res1 = common.Pick(r, int64(10), 7, 1000, 1)
			in.Res2 = in.Res1 * common.Pick(r, int64(2), 3, 12, 5)
		}
		in.Samples = downsampleutil.GenRaw(r, tier, in.Res1, true)
		if in.Res1 < 60000 && r.Intn(2) == 0 {
			in.Samples = downsampleutil.GenDenseCounter(r, in.Res1, 300+r.Intn(500))
		}
		allNaN := true
		for _, s := range in.Samples {
			if s.K == "" {
				allNaN = false
			}
		}
		if allNaN {
			in.Samples[0].K = ""
		}
		// a Next/Seek program over the time span of the series
		lo, hi := in.Samples[0].T, in.Samples[len(in.Samples)-1].T
		if hi < lo { // ill-formed (unsorted) series
			hi = lo
		}
		for k := r.Intn(8); k >= 0; k-- {
			if r.Intn(3) == 0 {
				in.Prog = append(in.Prog, opIn{})
			} else {
				x := lo - 5 + r.Int63n(hi-lo+10)
				in.Prog = append(in.Prog, opIn{Seek: &x})
			}
		}
		out = append(out, in)
	}
	return out
}

func main() {
	common.Main(common.Prop{ID: "C37", Facts: facts, Gen: gen, Run: run, QuickN: 110, ThoroughN: 800,
		Preamble: "From Verif Require Import Lib.Downsample_Core Lib.Downsample_Aggr.\nOpen Scope Z_scope.\n"})
}
